#!/bin/sh
# usage: tools/try_seeds.sh <out file> <id/X> ...   - run the owning check against each seed
OUT="$1"; shift
for s in "$@"; do
  id=$(dirname $s)
  r=$(/verif/tools/try_patch.sh /verif/seeded/_incoming/$s/patch.diff $id 2>&1 | grep -E "VIOLATION|exit=|held on|violation\(s\)|MACHINERY|KNOWN" | head -4 | tr '\n' ' ' | cut -c1-400)
  echo "$s :: $r" >> "$OUT"
done
echo DONE >> "$OUT"
