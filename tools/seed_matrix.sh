#!/bin/sh
# usage: tools/seed_matrix.sh <out> <dir under /verif/seeded> ...  : verify each seed on HEAD and run its owning check
OUT="$1"; shift
: > "$OUT"
for d in "$@"; do
  id=$(basename $(dirname $d)); [ -f $d/meta.json ] && id=$(python3 -c "import json,sys;print(json.load(open('$d/meta.json'))['property'])")
  v=$(/verif/tools/verify_seed.sh $d | awk '{print $2,$3,$5,$6}')
  r=$(/verif/tools/try_patch.sh $d/patch.diff $id 2>&1 | grep -a -E "^VIOLATION|held on|violation\(s\)|MACHINERY|APPLY-FAILED|exit=" | head -3 | cut -c1-120 | tr '\n' '|')
  echo "$d :: $v :: $r" >> "$OUT"
done
echo DONE >> "$OUT"
