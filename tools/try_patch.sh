#!/bin/sh
# usage: tools/try_patch.sh <patch.diff> <Cxx> [tier]   - run one check against a scratch worktree of /repo with the patch applied
set -e
P="$(readlink -f "$1")"; ID="$2"; TIER="${3:-quick}"
WT="$(mktemp -d /tmp/try-XXXXXX)"; rmdir "$WT"
git -C /repo worktree add --detach "$WT" HEAD >/dev/null 2>&1
trap 'git -C /repo worktree remove --force "$WT" >/dev/null 2>&1 || rm -rf "$WT"' EXIT
git -C "$WT" apply "$P" 2>/dev/null || git -C "$WT" apply -3 "$P" >/dev/null 2>&1 || { echo "APPLY-FAILED"; exit 3; }
set +e
VERIF_REPO="$WT" VERIF_EVIDENCE_DIR="$WT/.evidence" VERIF_REPLAY_DIR="$WT/.replays" "$(dirname "$0")/../check" "$ID" --tier "$TIER"
echo "exit=$?"
