#!/bin/sh
# usage: tools/verify_seed.sh <seed dir with patch.diff and demo.py>
# confirms on a scratch worktree of /repo HEAD: demo passes clean, patch applies, test suite passes, demo fails with patch
D="$(readlink -f "$1")"
WT="$(mktemp -d /tmp/vs-XXXXXX)"; rmdir "$WT"
git -C /repo worktree add --detach "$WT" HEAD >/dev/null 2>&1
trap 'git -C /repo worktree remove --force "$WT" >/dev/null 2>&1 || rm -rf "$WT"' EXIT
cd "$WT"
PYTHONPATH="$WT" timeout 300 /venv/bin/python "$D/demo.py" >/dev/null 2>&1; c=$?
if ! git apply "$D/patch.diff" 2>/dev/null; then git apply -3 "$D/patch.diff" >/dev/null 2>&1 || { echo "$1 clean_demo=$c APPLY-FAILED"; exit 0; }; fi
t=$(/venv/bin/python -m pytest -q -p no:cacheprovider -x 2>&1 | tail -1)
PYTHONPATH="$WT" timeout 300 /venv/bin/python "$D/demo.py" >/dev/null 2>&1; m=$?
echo "$1 clean_demo_exit=$c mutated_demo_exit=$m tests: $t"
