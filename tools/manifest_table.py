NOTES = ("Model-based verification with an explicit TLA+ specification (spec/*.tla). Every check runs TLC on the "
         "specification and binds it to the implementation in /repo's working tree: spec->code (TLC-exported cases / "
         "behaviours replayed into the real package) and code->spec (recorded executions judged by TLC). "
         "See DESIGN.md. Exit 2 = machinery failure (never a verdict).")
ENGINES = [
    {"name": "tla-conformance", "path": "/verif/harness", "serves_properties": [],
     "kind_free_text": "TLC model checking of spec/*.tla + export of expected observations + replay into tinyflux + trace validation of recorded executions by TLC"},
]
CHECKS["C18"] = dict(
    level="model_checking",
    technique="TLA+ spec (Bisect.tla) checked by TLC; exhaustive TLC-exported table replayed into find_*; recorded random cases judged by TLC",
    text="Exhaustive within the stated bounds: TLC enumerates every sorted list of length 0-7 over a 5-value domain with 11 probes, "
         "checks the boundary laws of module Bisect, and exports the declaratively defined results; the real find_* must reproduce each one "
         "under three order-embeddings. Seeded random float lists (with +-inf, +-0.0, subnormals, forced duplicates) are recorded from the real "
         "code and judged by TLC against the same operators. A pure function over a totally ordered domain depends only on the order pattern, "
         "so small-scope exhaustiveness is the right level.",
    note="Trusted: TLC's evaluation of set comprehensions; Python's int/float ordering; NaN is outside the domain.",
    design_ref="DESIGN.md section 5, C18")
CHECKS["C09"] = dict(
    level="model_checking",
    technique="TLA+ reference interpreter Eval (Query.tla) enumerated by TLC; exported truth vectors replayed into the real DSL; recorded random expressions judged by TLC",
    text="TLC enumerates the whole bounded expression language (every operator of every query type; a, ~a, a&b, a|b over ~90 atoms; "
         "nesting depth 3 over a basis) and evaluates the reference interpreter on every point of a universe holding each combination of "
         "missing key / None / lowest / equal-to-bound / above-bound values; every expression is built with the real DSL and called on every "
         "real Point: any mismatch or exception is a violation. Random deeper expressions are evaluated by the real code and judged by TLC. "
         "De Morgan, double negation and commutation of Eval itself are TLC invariants.",
    note="Trusted: the theme (ranks -> real values) is an order-embedding (verified at start-up); user callables are total functions from a fixed table; "
         "matches() is only exercised on patterns where prefix- and whole-string matching agree.",
    design_ref="DESIGN.md section 5, C09")
CHECKS["C17"] = dict(
    level="model_checking",
    technique="TLC-generated expression pairs; implementation's ==/hash verdicts recorded and judged by TLC against SemEq / commutation / map clauses of MC_Query.tla",
    text="All ordered pairs over ~1000 TLC-generated expressions (atoms incl. same-regex-different-flags and same-test-different-args, negations, "
         "simple/simple, simple/compound, compound/compound conjunctions and disjunctions with their commuted forms, map before and after the key) are built "
         "independently with the real DSL; every pair the implementation calls equal, or that the property requires equal, is judged by TLC: equal => same truth "
         "value on every universe point and same hash and no map function; commuted operands => equal.",
    note="Trusted: real evaluation = Eval (C09); same callable object per abstract function id.",
    design_ref="DESIGN.md section 5, C17")
