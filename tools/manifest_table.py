NOTES = ("Model-based verification with an explicit TLA+ specification (spec/*.tla). Every check runs TLC on the "
         "specification and binds it to the implementation in /repo's working tree: spec->code (TLC-exported cases / "
         "behaviours replayed into the real package) and code->spec (recorded executions judged by TLC). "
         "See DESIGN.md. Exit 2 = machinery failure (never a verdict).")
ENGINES = [
    {"name": "tla-conformance", "path": "/verif/harness", "serves_properties": [],
     "kind_free_text": "TLC model checking of spec/*.tla + export of expected observations + replay into tinyflux + trace validation of recorded executions by TLC"},
]
CHECKS["C18"] = dict(
    level="model_checking",
    technique="TLA+ spec (Bisect.tla) checked by TLC; exhaustive TLC-exported table replayed into find_*; recorded random cases judged by TLC",
    text="Exhaustive within the stated bounds: TLC enumerates every sorted list of length 0-7 over a 5-value domain with 11 probes, "
         "checks the boundary laws of module Bisect, and exports the declaratively defined results; the real find_* must reproduce each one "
         "under three order-embeddings. Seeded random float lists (with +-inf, +-0.0, subnormals, forced duplicates) are recorded from the real "
         "code and judged by TLC against the same operators. A pure function over a totally ordered domain depends only on the order pattern, "
         "so small-scope exhaustiveness is the right level.",
    note="Trusted: TLC's evaluation of set comprehensions; Python's int/float ordering; NaN is outside the domain.",
    design_ref="DESIGN.md section 5, C18")
