NOTES = ("Model-based verification with an explicit TLA+ specification (spec/*.tla). Every check runs TLC on the "
         "specification and binds it to the implementation in /repo's working tree: spec->code (TLC-exported cases / "
         "behaviours replayed into the real package) and code->spec (recorded executions judged by TLC). "
         "See DESIGN.md. Exit 2 = machinery failure (never a verdict).")
ENGINES = [
    {"name": "tla-conformance", "path": "/verif/harness", "serves_properties": [],
     "kind_free_text": "TLC model checking of spec/*.tla + export of expected observations + replay into tinyflux + trace validation of recorded executions by TLC"},
]
CHECKS["C18"] = dict(
    level="model_checking",
    technique="TLA+ spec (Bisect.tla) checked by TLC; exhaustive TLC-exported table replayed into find_*; recorded random cases judged by TLC",
    text="Exhaustive within the stated bounds: TLC enumerates every sorted list of length 0-7 over a 5-value domain with 11 probes, "
         "checks the boundary laws of module Bisect, and exports the declaratively defined results; the real find_* must reproduce each one "
         "under eight order-embeddings (ints, floats, huge floats, mixed int/float, epoch seconds a millisecond apart, datetimes a microsecond apart, strings). Seeded random float lists (with +-inf, +-0.0, subnormals, forced duplicates) are recorded from the real "
         "code and judged by TLC against the same operators. A pure function over a totally ordered domain depends only on the order pattern, "
         "so small-scope exhaustiveness is the right level.",
    note="Trusted: TLC's evaluation of set comprehensions; Python's int/float ordering; NaN is outside the domain.",
    design_ref="DESIGN.md section 5, C18")
CHECKS["C09"] = dict(
    level="model_checking",
    technique="TLA+ reference interpreter Eval (Query.tla) enumerated by TLC; exported truth vectors replayed into the real DSL; recorded random expressions judged by TLC",
    text="TLC enumerates the whole bounded expression language (every operator of every query type; a, ~a, a&b, a|b over ~90 atoms; "
         "nesting depth 3 over a basis) and evaluates the reference interpreter on every point of a universe holding each combination of "
         "missing key / None / lowest / equal-to-bound / above-bound values; every expression is built with the real DSL and called on every "
         "real Point: any mismatch or exception is a violation. Random deeper expressions are evaluated by the real code and judged by TLC. "
         "De Morgan, double negation and commutation of Eval itself are TLC invariants.",
    note="Trusted: the theme (ranks -> real values) is an order-embedding (verified at start-up); user callables are total functions from a fixed table; "
         "matches() is only exercised on patterns where prefix- and whole-string matching agree.",
    design_ref="DESIGN.md section 5, C09")
CHECKS["C17"] = dict(
    level="model_checking",
    technique="TLC-generated expression pairs; implementation's ==/hash verdicts recorded and judged by TLC against SemEq / commutation / map clauses of MC_Query.tla",
    text="All ordered pairs over ~1000 TLC-generated expressions (atoms incl. same-regex-different-flags and same-test-different-args, negations, "
         "simple/simple, simple/compound, compound/compound conjunctions and disjunctions with their commuted forms, map before and after the key) are built "
         "independently with the real DSL; every pair the implementation calls equal, or that the property requires equal, is judged by TLC: equal => same truth "
         "value on every universe point and same hash and no map function; commuted operands => equal.",
    note="Trusted: real evaluation = Eval (C09); same callable object per abstract function id.",
    design_ref="DESIGN.md section 5, C17")

_CORE_NOTE = ("Trusted: TLC; the themes (ranks -> real values: plain, csv-hostile, bigint, seeded random tables) as order-embeddings, verified at start-up; the harness's independent CSV row decoder; "
              "user callables from the theme's fixed table. Bounded: 6 point templates / ~75 queries / MaxLen 3-4 for the exhaustive design check; "
              "random histories of 10-80 calls over 3 tag keys, 3 field keys, 30 instants, 4 measurements, databases of up to a few thousand points, batches of several hundred; TLC paths to depth 3-4 plus simulated behaviours.")
_CORE_TECH = "TLA+ spec TinyFlux.tla/Index.tla model-checked by TLC; TLC-generated paths replayed into tinyflux; recorded executions judged by TLC (Trace_TinyFlux.tla)"


def _core(pid, text, ref):
    CHECKS[pid] = dict(level="model_checking", technique=_CORE_TECH, text=text, note=_CORE_NOTE, design_ref=ref)


_core("C01", "TLC proves on the bounded design that the index path (Bisect on timestamps, inverted maps, set algebra for compounds) selects exactly Eval's points in every reachable "
      "state; the binding runs histories (random, every TLC path of a focused alphabet, simulated behaviours) on the real package in all four configurations and TLC judges every "
      "search/count/contains/get/select result (multiset, order, first match, select keys) against the definition on the logged contents.", "DESIGN.md section 5, C01")
_core("C02", "RemoveExact is checked by TLC on every transition of the bounded design (three branches: nothing / everything / partial with index renumbering); "
      "on the real package every remove/drop_measurement/remove_all is judged by TLC on return value, surviving contents and order, and every later call of the history is judged too.", "DESIGN.md section 5, C02")
_core("C03", "ApplyUpdate (replace time/measurement, key-wise merge, unset last, static = callable) and UpdateExact are TLC-checked on the design; update-heavy random histories and all TLC "
      "paths over the update alphabet are executed on the real package and judged by TLC on count-of-changed, contents and order.", "DESIGN.md section 5, C03")
_core("C06", "IndexIsRebuild / IndexSearchExact / getters are TLC invariants over every reachable state of the design (incremental append and remove-with-renumbering vs rebuild); "
      "on the real package, after EVERY call with a valid index, the live index's answers (query matches for a battery, keys, values, timestamps, length) are logged next to those of an "
      "index rebuilt by the real code from the logged contents and TLC requires them equal, and the validity flag is judged against the envelope (in-order insert keeps valid, reads leave valid).",
      "DESIGN.md section 5, C06")
_core("C07", "Getter definitions (sorted keys, None-last tag values, insertion-order field values / timestamps, len, iter, all) are operators on the logged contents; TLC proves index getters = "
      "definition on the design and judges every getter call of the real package, with and without a valid index, with present / absent / no measurement filter.", "DESIGN.md section 5, C07")
_core("C10", "The specification gives handle operations the meaning of the database operation restricted to the handle's name; handle-heavy histories (90% of measurement-scoped calls "
      "through db.measurement(name), names present and absent, handles re-obtained after drops) are judged by TLC clause by clause, so a handle that sees or touches another measurement fails result/store.", "DESIGN.md section 5, C10")
_core("C11", "Failing operations (non-Point at each position of insert_multiple, update without arguments, update callable raising or returning an invalid value on the k-th selected point) are "
      "actions of the specification with 'store unchanged' (insert_multiple: plus the stored prefix); TLC requires the raise, the unchanged projected contents, a consistent index, and judges all later calls.", "DESIGN.md section 5, C11")

_IO_NOTE = ("Trusted: the run-time I/O proxies (harness/ioproxy.py) see every I/O call tinyflux.storages makes through open / NamedTemporaryFile / os / shutil; "
            "the kernel-visible bytes read through a separate descriptor are what survives process death (no power-loss model); shutil.copy is observed as "
            "open-truncate / half / rest / close; single faults; rows below the 8 KiB buffer; histories sampled, boundaries / call indices of each executed operation enumerated.")
CHECKS["C04"] = dict(level="model_checking", technique="TLA+ specs TinyFlux.tla + CsvIO.tla; recorded executions with independent file decoding judged by TLC (clause 'file')",
    text="CsvIO.tla states FileHoldsContents for the append / rewrite programs (TLC, both swap designs, flush on and off). Binding: histories with early-exit reads before appends run on CSV storage "
         "across a covering array (thorough: all cells) of flush_on_insert x encoding {default, utf-8, utf-16, latin-1} x dialect {default, ';', QUOTE_ALL, quotechar} x compact/default prefixes "
         "with CSV-hostile strings (delimiters, quotes, CR/LF, non-ASCII, reserved prefixes) and on files larger than the 8 KiB buffer; after every call (flush off: after close) the bytes decoded "
         "by an independent reader and the contents seen by a fresh read-only TinyFlux must equal the specification's contents.",
    note=_IO_NOTE + " The independent reader shares Python's csv module with the code (the row -> point layer is independent).", design_ref="DESIGN.md section 5, C04")
CHECKS["C12"] = dict(level="fault_enumeration", technique="TLA+ CsvIO.tla model-checked with a crash between any two effects; recorded I/O boundaries of the real code judged by TLC (clause 'crash')",
    text="TLC places a crash between any two effects of every operation program in CsvIO.tla (copy-based swap: consistent exactly outside the copy window; rename-based: consistent). "
         "Binding: every I/O boundary of every operation in the sampled histories (incl. files > 8 KiB after early-exit reads) is snapshotted through the proxies; each snapshot is decoded by an "
         "independent reader and TLC requires the old or the new contents (insert_multiple: old + prefix). Exhaustive over the boundaries of executed operations, sampled over histories.",
    note=_IO_NOTE, design_ref="DESIGN.md section 5, C12")
CHECKS["C13"] = dict(level="fault_enumeration", technique="OSError injected at every recorded I/O call index of every operation; outcomes judged by TLC (fault_* clauses of Trace_TinyFlux.tla)",
    text="For every operation of the sampled histories the fault-free run yields the exact list of I/O calls; the history is re-run once per call index with OSError injected there (before the "
         "effect; for flush/fsync/close also after it). TLC requires: the caller sees an OSError; the live object's own storage is old/new/old+prefix; every later read raises or equals the "
         "specification's answer over that storage; after one more insert and close the file decodes to an allowed contents plus that insert.",
    note=_IO_NOTE, design_ref="DESIGN.md section 5, C13")
CHECKS["C14"] = dict(level="model_checking", technique="matrix of ill-typed values enumerated by TLC (MC_TinyFlux.BadCells) as transitions; paths replayed into tinyflux and judged by TLC",
    text="The specification owns the matrix entry point x slot x kind (each kind also falsy; static or via callable; alone or next to a valid companion argument); TLC enumerates every cell as a "
         "transition after 0-2 inserts followed by all() and count(); each path runs in the four configurations and TLC requires ValueError/TypeError, unchanged contents (the projection "
         "type-checks every stored value through the theme) and well-typed reads afterwards. Random histories with callables returning invalid values are judged too.",
    note=_CORE_NOTE + " Falsy static time/measurement arguments of update() mean 'argument absent' and are not generated.", design_ref="DESIGN.md section 5, C14")
CHECKS["C15"] = dict(level="model_checking", technique="TLA+ TinyFlux.tla/CsvIO.tla; recorded executions with byte and directory observations judged by TLC (clauses 'unchanged', 'tmp', 'fault_tmp')",
    text="ReadsChangeNothing / NoTempLeft are TLC-checked on the design. Binding: read-heavy histories with no-op removes/updates, raising calls and access modes r / r+ / a / w+ run under the proxies; "
         "TLC requires byte-identical files for reads, getters, iteration, reindex, no-match removes, no-change updates and forbidden writes (which must raise), and no new file in the private temp "
         "directory or the database directory after any call, returned or raised - including calls in which one I/O call was made to fail (every I/O call of every operation of a few histories, clause fault_tmp).", note=_IO_NOTE, design_ref="DESIGN.md section 5, C15")
CHECKS["C16"] = dict(level="model_checking", technique="TLA+ CsvIO.tla (AppendOnly, InsertCost); recorded I/O calls of inserts judged by TLC (clauses 'append', 'cost')",
    text="AppendOnly and InsertCost are invariants of the insert program in CsvIO.tla. Binding: I/O calls of inserts recorded on databases of 0-3000 rows, in and out of time order, auto_index on/off, "
         "after reads that left the file position mid-file; TLC requires only seek / write-at-end / flush / fsync / truncate-at-end, the old bytes as a prefix at every boundary, no read, a bounded "
         "number of calls per point; the harness additionally requires equal call counts for small and large databases.", note=_IO_NOTE, design_ref="DESIGN.md section 5, C16")
CHECKS["C05"] = dict(level="model_checking", technique="TLA+ format model Codec.tla checked by TLC over a reserved-word universe; universe round-tripped through the real CSVStorage; written rows judged by TLC against Ser/De",
    text="Codec.tla states the row layout at character level (prefixes, prefix sniffing by position, the '_none' sentinel); TLC checks De(Ser(p)) = p for every point of a universe built from "
         "the reserved words, prefixes, their fragments and the empty string in every string slot, both prefix styles, and shows the sentinel collision as a counterexample of the format itself. "
         "Every universe point is written through the real CSVStorage, reopened and compared (tags stay tags, fields stay fields, -0.0/inf/subnormals kept, injectivity); the raw rows the real "
         "serializer wrote are judged by TLC (row = Ser(p), De(row) = p); the same round trip - also through the live instance after a rewrite - runs on seeded random points "
         "(Unicode incl. delimiters, quotes, CR/LF, NUL, astral; float64 bit patterns; ints to 2^70; microsecond instants 1700-2240; four dialects).",
    note="float64, Unicode and datetimes are SAMPLED, not enumerated - a TLA+ model cannot usefully quantify over them; the model contributes the format, the reserved-word universe and the oracle. NaN excluded.",
    design_ref="DESIGN.md section 5, C05")
CHECKS["C08"] = dict(level="model_checking", technique="zone-free TLA+ spec (instants are ranks) + trace validation by TLC of histories run under time-edge themes in four process time zones",
    text="The specification never mentions zones: instants are ranks, comparisons and stable sorting are on ranks, a point without time gets a stamp not earlier than any earlier stamp. "
         "The binding runs C01/C03-style histories (insert, insert_multiple, update(time=static|callable), reopen, every TimeQuery operator, get_timestamps, select('time'), sorted reads) with "
         "instants at adjacent microseconds, ties, the epoch, DST gaps/folds and the range ends 1700/2239, every input rendered in another UTC offset or as a naive local value of the same instant, "
         "in worker processes with TZ in {UTC, America/Los_Angeles, Australia/Lord_Howe, Asia/Kathmandu}; TLC judges every call and the projection requires aware-UTC, microsecond-exact times.",
    note="Datetimes are SAMPLED (about 200 curated instants), not enumerated; naive TimeQuery comparison values are outside the documented domain; float conversion inside the index is only exercised on the sampled instants.",
    design_ref="DESIGN.md section 5, C08")
NOTES = NOTES + " Known findings (unfixed, with signatures) and fixed defects are listed in known_findings.json."
