#!/bin/sh
# usage: tools/run_all.sh <out> [tier] [ids...]
OUT="$1"; TIER="${2:-quick}"; shift; shift
IDS="${@:-C01 C02 C03 C04 C05 C06 C07 C08 C09 C10 C11 C12 C13 C14 C15 C16 C17 C18}"
: > "$OUT"
for id in $IDS; do
  [ -f /verif/checks/$(echo $id | tr A-Z a-z).py ] || continue
  s=$(date +%s)
  r=$(cd /verif && ./check $id --tier $TIER 2>&1 | grep -E "^VIOLATION|^KNOWN|held on|violation\(s\)|MACHINERY|Error|Traceback" | cut -c1-160 | head -6 | tr '\n' '|')
  echo "$id rc=$? $(( $(date +%s) - s ))s :: $r" >> "$OUT"
done
echo DONE >> "$OUT"
