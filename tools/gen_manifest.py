#!/usr/bin/env python3
"""Regenerate MANIFEST.json from the table below (single source for ids, levels, notes)."""
import json, os
HERE = os.path.dirname(os.path.dirname(os.path.abspath(__file__)))
CHECKS = {}
NA = {}
exec(open(os.path.join(HERE, "tools", "manifest_table.py")).read())
props = [json.loads(l)["id"] for l in open(os.path.join(HERE, "properties.jsonl"))]
checks = []
for pid in props:
    if pid in CHECKS:
        c = CHECKS[pid]
        checks.append({
            "property_id": pid,
            "quick_cmd": "./check %s --tier quick" % pid,
            "thorough_cmd": "./check %s --tier thorough" % pid,
            "evidence_file": "/verif/evidence/%s.json" % pid,
            "replay_cmd_template": "./check replay {path}",
            "engine": c.get("engine", "tla-conformance"),
            "level_claimed": {"category": c["level"], "text": c["text"], "design_ref": c.get("design_ref", "DESIGN.md section 5")},
            "level_note": c["note"],
            "technique": c["technique"],
        })
na = [{"property_id": pid, "reason": NA.get(pid, "check not built yet in this session; planned in DESIGN.md section 5")}
      for pid in props if pid not in CHECKS]
man = {
    "version": 1,
    "setup_cmd": "./check setup",
    "hooks": {
        "guard": "TINYFLUX_VERIF",
        "enable": "no source hooks: the library is sequential and observed through its public API and the file; TINYFLUX_VERIF=1 only switches on the harness-side run-time I/O proxies (harness/ioproxy.py) that rebind open/NamedTemporaryFile/os/shutil inside tinyflux.storages",
        "baseline_off_cmd": "cd /repo && /venv/bin/python -m pytest -ra -q -p no:cacheprovider --timeout=900 --continue-on-collection-errors",
        "source_commits": [],
        "add_only": True,
    },
    "engines": ENGINES,
    "checks": checks,
    "not_applicable": na,
    "notes": NOTES,
}
json.dump(man, open(os.path.join(HERE, "MANIFEST.json"), "w"), indent=1)
print("wrote MANIFEST.json with %d checks, %d not_applicable" % (len(checks), len(na)))
