#!/venv/bin/python
"""Record the repository's test suite on the CLEAN tree and list the traces the specification accepts;
only those are required to be accepted by the checks (tests that hand the API invalid objects, or use
storage configurations the trace format does not describe, stay out)."""
import json, os, sys
sys.path.insert(0, "/verif/harness")
import common, suite, traces
common.use_repo()
trs, broken, tail = suite.record()
v, _ = traces.judge(trs)
ok = {t["id"]: len(t["events"]) for t in trs if v[t["id"]]["ok"]}
json.dump({"accepted_on_clean_tree": ok, "not_in_model": sorted(t["id"] for t in trs if not v[t["id"]]["ok"]),
           "not_recorded": broken}, open(suite.ALLOW, "w"), indent=1, sort_keys=True)
print(len(ok), "traces accepted,", len(trs) - len(ok), "not in model,", len(broken), "not recorded")
