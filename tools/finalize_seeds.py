#!/usr/bin/env python3
"""Move verified seeded changes from seeded/_incoming and seeded/_fixrev to seeded/<id>/ with meta.json,
and write seeded/README.md (which check catches which change).  Input: result files of tools/seed_matrix.sh."""
import json, os, re, shutil, sys
V = "/verif/seeded"
rows = []
for path in sys.argv[1:]:
    for line in open(path, errors="replace"):
        if "::" not in line:
            continue
        d, ver, res = [x.strip() for x in line.split("::", 2)]
        rows.append((d, ver, res))
out = ["# Seeded changes", "",
       "Each directory holds `patch.diff` (applies to /repo HEAD with `git apply` / `git apply -3`), the demonstration, and `meta.json`.",
       "`agent-*`: produced by a sub-agent that saw only the property text; `fixrev-*`: the reverse of one of the `fix:` commits (the original defect).",
       "Verification = `tools/verify_seed.sh` (suite passes with the change, demo fails with it and passes without) + the owning check run by `tools/try_patch.sh`.", "",
       "| seed | property | needs, in order to manifest | tests with change | demo clean / changed | owning check (quick tier) |", "|---|---|---|---|---|---|"]
for d, ver, res in rows:
    src = os.path.join("/verif", d)
    if not os.path.isdir(src):
        continue
    agent = "_incoming" in d
    if agent:
        pid, x = d.split("/")[-2:]
        name = "%s-%s-%s" % ("agent8" if "_incoming8" in d else "agent7" if "_incoming7" in d else "agent6" if "_incoming6" in d else "agent5" if "_incoming5" in d else "agent4" if "_incoming4" in d else "agent3" if "_incoming3" in d else ("agent2" if "_incoming2" in d else "agent"), pid, x)
        notes = open(os.path.join(src, "notes.md")).read() if os.path.exists(os.path.join(src, "notes.md")) else ""
        needs = " ".join(notes.split())[:600]
    else:
        meta0 = json.load(open(os.path.join(src, "meta.json")))
        pid = meta0["property"]
        name = "fixrev-%s-%s" % (pid, meta0["fix_commit"])
        needs = meta0["what"]
    caught = "VIOLATION property=%s" % pid in res
    m = re.search(r"clean_demo_exit=(\d+) mutated_demo_exit=(\d+) (.*)", ver)
    dst = os.path.join(V, name)
    if os.path.exists(dst):
        shutil.rmtree(dst)
    os.makedirs(dst)
    for f in os.listdir(src):
        if f in ("patch.diff", "demo.py", "notes.md"):
            shutil.copy(os.path.join(src, f), os.path.join(dst, f))
    meta = {"property": pid, "origin": "sub-agent given only the property text" if agent else "reverse of fix commit %s" % meta0["fix_commit"],
            "needs_to_manifest": needs,
            "ran": ["tools/verify_seed.sh %s" % os.path.relpath(dst, "/verif"), "tools/try_patch.sh %s/patch.diff %s quick" % (os.path.relpath(dst, "/verif"), pid)],
            "verification": ver, "check_result": res[:400], "caught_by_owning_check": caught}
    json.dump(meta, open(os.path.join(dst, "meta.json"), "w"), indent=1)
    demo = "%s / %s" % (m.group(1), m.group(2)) if m else ("- (no demo; the original defect)" if not agent else ver)
    tests = m.group(3) if m else "-"
    out.append("| %s | %s | %s | %s | %s | %s |" % (name, pid, needs[:160].replace("|", "/"), tests, demo, "**caught**" if caught else "MISSED: " + res[:80].replace("|", "/")))
tail = open(os.path.join(V, "README.tail.md")).read() if os.path.exists(os.path.join(V, "README.tail.md")) else ""
open(os.path.join(V, "README.md"), "w").write("\n".join(out) + "\n" + tail)
print("\n".join(out[-len(rows):]))
