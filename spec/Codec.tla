-------------------------------- MODULE Codec --------------------------------
(***************************************************************************)
(* The CSV row layout of a Point (tinyflux/point.py, docs "internals"), at *)
(* the level where characters matter: key prefixes, prefix sniffing by     *)
(* position, and the "_none" sentinel.                                     *)
(*                                                                         *)
(*   row  =  time , measurement , (tagprefix+key , tagvalue)* ,            *)
(*                                (fieldprefix+key , fieldvalue)*          *)
(*   prefixes: default "_tag_" / "_field_", compact "t_" / "f_" (both may  *)
(*   occur in one file); None is written as the sentinel "_none".          *)
(*                                                                         *)
(* Strings are sequences of one-character strings.  Field values are       *)
(* opaque numeric tokens (their float/int text form is the harness's       *)
(* business); only None is interpreted.                                    *)
(*                                                                         *)
(* C05:  RoundTrip  De(Ser(p, style)) = p  for every valid point, which    *)
(* also gives injectivity (a left inverse exists) and "tags stay tags,     *)
(* fields stay fields".  A sentinel that collides with a legal value is a  *)
(* counterexample of the FORMAT, independent of the code: the invariant    *)
(* RoundTripExceptSentinel names exactly that region.                      *)
(***************************************************************************)
EXTENDS Integers, Sequences, FiniteSets

None == <<"\\None">>                      \* the Python value None (not a string of the universe)

Str(s) == s                              \* documentation only: s is a sequence of characters
NoneStr      == <<"_", "n", "o", "n", "e">>
TagDefault   == <<"_", "t", "a", "g", "_">>
FieldDefault == <<"_", "f", "i", "e", "l", "d", "_">>
TagCompact   == <<"t", "_">>
FieldCompact == <<"f", "_">>

TagPrefix(style)   == IF style = "compact" THEN TagCompact ELSE TagDefault
FieldPrefix(style) == IF style = "compact" THEN FieldCompact ELSE FieldDefault

(* a point: [time, m, tags, fields]; tags / fields are sequences of         *)
(* <<key, value>> pairs with distinct keys (insertion order is kept)        *)
SerVal(v) == IF v = None THEN NoneStr ELSE v

RECURSIVE Flatten(_, _)
Flatten(pairs, prefix) ==
  IF pairs = <<>> THEN <<>>
  ELSE <<prefix \o Head(pairs)[1], SerVal(Head(pairs)[2])>> \o Flatten(Tail(pairs), prefix)

(* the format as the documentation describes it: every slot is written as  *)
(* it is, None as the sentinel                                             *)
Ser(p, style) == <<p.time, p.m>> \o Flatten(p.tags, TagPrefix(style)) \o Flatten(p.fields, FieldPrefix(style))

Drop(s, n) == SubSeq(s, n + 1, Len(s))

(* prefix sniffing by position, as the reader does it *)
IsDefaultTag(c) == Len(c) >= 2 /\ c[2] = "t"
IsCompactTag(c) == Len(c) >= 1 /\ c[1] = "t"
IsTagCell(c)    == IsDefaultTag(c) \/ IsCompactTag(c)
TagKey(c)   == IF IsDefaultTag(c) THEN Drop(c, 5) ELSE Drop(c, 2)
FieldKey(c) == IF Len(c) >= 2 /\ c[2] = "f" THEN Drop(c, 7) ELSE Drop(c, 2)
DeVal(s) == IF s = NoneStr THEN None ELSE s

RECURSIVE DeTags(_, _), DeFields(_, _)
DeTags(row, i) ==          \* <<tags, index of the first non-tag cell>>
  IF i > Len(row) \/ ~ IsTagCell(row[i]) THEN <<<<>>, i>>
  ELSE LET rest == DeTags(row, i + 2) IN <<<<<<TagKey(row[i]), DeVal(row[i + 1])>>>> \o rest[1], rest[2]>>
DeFields(row, i) ==
  IF i > Len(row) THEN <<>>
  ELSE <<<<FieldKey(row[i]), DeVal(row[i + 1])>>>> \o DeFields(row, i + 2)

De(row) == LET t == DeTags(row, 3) IN
           [time |-> row[1], m |-> row[2], tags |-> t[1], fields |-> DeFields(row, t[2])]

RoundTrip(p, style) == De(Ser(p, style)) = p

(* where the sentinel design cannot round-trip: a tag value that IS the    *)
(* sentinel text                                                           *)
SentinelCollision(p) == \E i \in 1..Len(p.tags) : p.tags[i][2] = NoneStr

RoundTripExceptSentinel(p, style) == RoundTrip(p, style) \/ SentinelCollision(p)
=============================================================================
