------------------------------ MODULE MC_Codec ------------------------------
(***************************************************************************)
(* Bounded instance of Codec: a universe of points built from curated      *)
(* strings (the prefixes, the sentinel, their fragments, the empty string) *)
(* in every string slot, at most NT tags and NF fields per point.          *)
(* One TLC state per (point, style); the round trip is an invariant and    *)
(* every point is printed for the harness, which writes it through the     *)
(* real CSVStorage and reads it back.                                      *)
(***************************************************************************)
EXTENDS Codec, TLC, Json, IOUtils

CONSTANTS Small,     \* TRUE: reduced universe (quick tier)
          Mode       \* "export" | "validate" (rows written by the real code are judged)

VARIABLE c

Keys == {<<>>, <<"_">>, <<"t">>, <<"f">>, TagCompact, FieldCompact, <<"_", "t">>, <<"_", "f">>,
         TagDefault, FieldDefault, NoneStr, <<"a">>}
KeysS == {<<>>, <<"t">>, TagCompact, <<"_", "f">>, FieldDefault, NoneStr, <<"a">>}
TagVals == {None, <<>>, NoneStr, <<"a">>, TagCompact \o <<"a">>, TagDefault \o <<"a">>, FieldDefault, <<"f">>}
TagValsS == {None, <<>>, NoneStr, <<"a">>, TagDefault \o <<"a">>}
Meas == {<<>>, NoneStr, <<"_", "d">>, <<"a">>, TagCompact}
MeasS == {<<>>, NoneStr, <<"a">>}
Tokens == {None, <<"0">>, <<"1">>, <<"2">>}         \* numeric tokens: None, and three numbers owned by the harness

K == IF Small THEN KeysS ELSE Keys
TV == IF Small THEN TagValsS ELSE TagVals
MS == IF Small THEN MeasS ELSE Meas

TagSeqs == {<<>>} \cup {<<<<k, v>>>> : k \in K, v \in TV}
           \cup (IF Small THEN {} ELSE {<<<<kk[1], <<"a">>>>, <<kk[2], None>>>> : kk \in {pp \in K \X K : pp[1] # pp[2]}})
FieldSeqs == {<<>>} \cup {<<<<k, v>>>> : k \in K, v \in Tokens}
             \cup (IF Small THEN {} ELSE {<<<<kk[1], <<"1">>>>, <<kk[2], None>>>> : kk \in {pp \in K \X K : pp[1] # pp[2]}})

Recorded == IF Mode = "validate" THEN JsonDeserialize(IOEnv.VERIF_IN) ELSE <<>>

Init == IF Mode = "export"
        THEN c \in [time : {<<"T">>}, m : MS, tags : TagSeqs, fields : FieldSeqs, style : {"default", "compact"}]
        ELSE c = 0
Next == IF Mode = "export" THEN UNCHANGED c
        ELSE \E d \in 1..16 : 16 * c + d <= Len(Recorded) /\ c' = 16 * c + d

(* validate: the row the REAL serializer wrote for point p must be the row  *)
(* the format prescribes, and must decode (by the format's reader) to p     *)
FixNone(v) == IF v = <<"~">> THEN None ELSE v
FixPairs(ps) == [i \in 1..Len(ps) |-> <<ps[i][1], FixNone(ps[i][2])>>]
RealRowOK ==
  (Mode = "validate" /\ c > 0) =>
     LET k == Recorded[c]
         p == [time |-> k.time, m |-> k.m, tags |-> FixPairs(k.tags), fields |-> FixPairs(k.fields)]
         bad == (IF k.row # Ser(p, k.style) THEN {"row_differs_from_format"} ELSE {})
                \cup (IF De(k.row) # p /\ ~ SentinelCollision(p) THEN {"row_does_not_decode_to_point"} ELSE {})
     IN bad = {} \/ PrintT(<<"BAD", ToJson([id |-> k.id, clauses |-> bad, expected |-> Ser(p, k.style)])>>)

P == [time |-> c.time, m |-> c.m, tags |-> c.tags, fields |-> c.fields]

RoundTripOK == Mode = "export" => RoundTripExceptSentinel(P, c.style)
(* expected to FAIL, with a counterexample inside SentinelCollision: the   *)
(* known finding about the "_none" tag value is a property of the format   *)
RoundTripStrict == Mode = "export" => RoundTrip(P, c.style)

Emit == Mode = "export" => PrintT(<<"POINT", ToJson([m |-> c.m, tags |-> c.tags, fields |-> c.fields, style |-> c.style,
                                   collides |-> IF SentinelCollision(P) THEN 1 ELSE 0])>>)
=============================================================================
