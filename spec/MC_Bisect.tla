----------------------------- MODULE MC_Bisect ------------------------------
(***************************************************************************)
(* Bounded instance for C18.                                               *)
(*  mode "export"  : every sorted list of length 0..MaxLen over Vals, one  *)
(*                   TLC state each; prints, per list, the expected        *)
(*                   results for every probe as one JSON line (consumed by *)
(*                   harness/c18.py, which runs the real find_* on them).  *)
(*  mode "validate": cases recorded from the real code (rank-compressed    *)
(*                   random float lists) are read from IOEnv.VERIF_IN and  *)
(*                   judged against the same operators.                    *)
(* BoundaryLaws is checked as an invariant in both modes.                  *)
(***************************************************************************)
EXTENDS Bisect, TLC, Json, IOUtils, SequencesExt

CONSTANTS Vals, Probes, MaxLen, Mode

VARIABLE c        \* export: a sorted list;  validate: index of a recorded case

Lists == UNION {[1..n -> Vals] : n \in 0..MaxLen}
SortedLists == {l \in Lists : SortedAsc(l)}

Cases == IF Mode = "validate" THEN ndJsonDeserialize(IOEnv.VERIF_IN) ELSE <<>>

Init == IF Mode = "export" THEN c \in SortedLists ELSE c \in 1..Len(Cases)
Next == UNCHANGED c

ProbeSeq == SetToSortSeq(Probes, <)

ExportLine(l) == [l |-> l, probes |-> ProbeSeq,
                  r |-> [i \in 1..Len(ProbeSeq) |-> FindAll(l, ProbeSeq[i])]]

Emit == IF Mode = "export" THEN PrintT(<<"CASE", ToJson(ExportLine(c))>>)
        ELSE LET k == Cases[c] IN
             IF k.r = FindAll(k.l, k.x) THEN TRUE
             ELSE PrintT(<<"BAD", ToJson([id |-> k.id, expected |-> FindAll(k.l, k.x)])>>)

Laws == IF Mode = "export" THEN \A x \in Probes : BoundaryLaws(c, x)
        ELSE BoundaryLaws(Cases[c].l, Cases[c].x)
=============================================================================
