------------------------------- MODULE Bisect -------------------------------
(***************************************************************************)
(* Declarative meaning of the sorted-list search helpers of                *)
(* tinyflux/utils.py (find_eq, find_lt, find_le, find_gt, find_ge).        *)
(*                                                                         *)
(* The definitions are set comprehensions over positions - deliberately    *)
(* NOT a bisection - so that they are an independent statement of the      *)
(* documented result.  Lists are TLA+ sequences (1-based); reported        *)
(* positions are 0-based as in Python; "None" is NoneI.                    *)
(*                                                                         *)
(* Property C18.  Module Index uses these operators for time queries,      *)
(* which ties C18 to C01/C06.                                              *)
(***************************************************************************)
EXTENDS Integers, Sequences, FiniteSets

NoneI == -1

SortedAsc(l) == \A i \in 1..Len(l)-1 : l[i] <= l[i+1]

MinOf(S) == CHOOSE x \in S : \A y \in S : x <= y
MaxOf(S) == CHOOSE x \in S : \A y \in S : x >= y

LeftmostOr(S)  == IF S = {} THEN NoneI ELSE MinOf(S) - 1
RightmostOr(S) == IF S = {} THEN NoneI ELSE MaxOf(S) - 1

FindEq(l, x) == LeftmostOr ({i \in 1..Len(l) : l[i] = x})
FindLt(l, x) == RightmostOr({i \in 1..Len(l) : l[i] < x})
FindLe(l, x) == RightmostOr({i \in 1..Len(l) : l[i] <= x})
FindGt(l, x) == LeftmostOr ({i \in 1..Len(l) : l[i] > x})
FindGe(l, x) == LeftmostOr ({i \in 1..Len(l) : l[i] >= x})

FindAll(l, x) == <<FindEq(l, x), FindLt(l, x), FindLe(l, x), FindGt(l, x), FindGe(l, x)>>

(* Facts about the helpers that the index relies on (checked by TLC in     *)
(* MC_Bisect): on a sorted list the positions selected by a comparison are *)
(* exactly a prefix / suffix delimited by the helper's answer.             *)
PrefixUpTo(l, r)  == IF r = NoneI THEN {} ELSE 1..(r+1)
SuffixFrom(l, r)  == IF r = NoneI THEN {} ELSE (r+1)..Len(l)

BoundaryLaws(l, x) ==
  /\ PrefixUpTo(l, FindLt(l, x)) = {i \in 1..Len(l) : l[i] < x}
  /\ PrefixUpTo(l, FindLe(l, x)) = {i \in 1..Len(l) : l[i] <= x}
  /\ SuffixFrom(l, FindGt(l, x)) = {i \in 1..Len(l) : l[i] > x}
  /\ SuffixFrom(l, FindGe(l, x)) = {i \in 1..Len(l) : l[i] >= x}
  /\ LET e == FindEq(l, x) IN
       IF e = NoneI THEN \A i \in 1..Len(l) : l[i] # x
       ELSE /\ l[e+1] = x
            /\ \A i \in 1..e : l[i] < x
=============================================================================
