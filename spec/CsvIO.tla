-------------------------------- MODULE CsvIO --------------------------------
(***************************************************************************)
(* CSVStorage at the granularity of I/O EFFECTS (tinyflux/storages.py):    *)
(* what another process - or the next process after a crash - can see of   *)
(* the primary file while an operation is in flight.                       *)
(*                                                                         *)
(* Every API operation is a PROGRAM, a sequence of effects as the code     *)
(* performs them (recorded once with the run-time proxies):                *)
(*   insert       seek-end, write, flush, fsync, truncate-at-end           *)
(*   rewrite      create temp; per kept row the same append on the temp;   *)
(*   (remove /    close primary; SWAP; reopen; close temp; unlink temp      *)
(*    update)     SWAP = "copy":   open destination truncating, copy the   *)
(*                                 data (observable half way), close       *)
(*                SWAP = "rename": atomic rename of the temp               *)
(*   remove_all   seek 0, truncate                                         *)
(* A crash can happen between any two effects: process death loses every   *)
(* user-space buffer and keeps the kernel-visible content, so the crash    *)
(* properties are invariants over ALL states of a program run.             *)
(*                                                                         *)
(*   CrashConsistent  the visible primary file decodes to the contents     *)
(*                    before the operation or after it (insert_multiple:   *)
(*                    before + a prefix of the new rows)            (C12)  *)
(*   AppendOnly       during inserts the old content stays a prefix (C16)  *)
(*   InsertCost       effects per inserted row = a constant          (C16) *)
(*   NoTempLeft       no temp file exists when no operation is in flight   *)
(*                                                                   (C15) *)
(*   FileHoldsContents  when idle (flush_on_insert) or closed, the file    *)
(*                    holds the logical contents                     (C04) *)
(* With Swap = "copy" CrashConsistent is violated exactly inside the copy  *)
(* window (InCopyWindow); with Swap = "rename" it holds outright.          *)
(***************************************************************************)
EXTENDS Integers, Sequences, FiniteSets, SequencesExt, TLC

CONSTANTS Rows,            \* row ids that can be inserted
          MaxRows,         \* bound on the file length
          Swap,            \* "copy" | "rename"
          FlushOnInsert,   \* BOOLEAN
          MaxOps           \* operations per behaviour

VARIABLES db,      \* kernel-visible rows of the primary file
          dbuf,    \* rows written to the primary handle but still in its user-space buffer
          tmp,     \* kernel-visible rows of the temp file (<<>> if none)
          tbuf,    \* buffered rows of the temp handle
          tmpExists,
          prog,    \* effects of the operation in flight still to be executed
          kind,    \* "idle" | "insert" | "rewrite" | "reset"
          old, new,\* logical contents before / after the operation in flight
          nops,    \* operations started so far
          steps    \* effects executed by the operation in flight

vars == <<db, dbuf, tmp, tbuf, tmpExists, prog, kind, old, new, nops, steps>>

E(e, f, r) == [e |-> e, f |-> f, row |-> r]

AppendProg(f, r) ==
  IF FlushOnInsert
  THEN <<E("seek_end", f, 0), E("write", f, r), E("flush", f, 0), E("fsync", f, 0), E("truncate_here", f, 0)>>
  ELSE <<E("seek_end", f, 0), E("write", f, r)>>

RECURSIVE AppendAll(_, _)
AppendAll(f, rs) == IF rs = <<>> THEN <<>> ELSE AppendProg(f, Head(rs)) \o AppendAll(f, Tail(rs))

SwapProg == IF Swap = "copy"
            THEN <<E("flush", "tmp", 0), E("copy_open", "db", 0), E("copy_half", "db", 0), E("copy_rest", "db", 0), E("copy_done", "db", 0)>>
            ELSE <<E("flush", "tmp", 0), E("rename", "db", 0)>>

RewriteProg(rs) == <<E("mktemp", "tmp", 0)>> \o AppendAll("tmp", rs) \o <<E("close", "db", 0)>>
                   \o SwapProg \o <<E("reopen", "db", 0), E("close", "tmp", 0), E("unlink", "tmp", 0)>>

ResetProg == <<E("seek0", "db", 0), E("truncate_here", "db", 0)>>

Logical == db \o dbuf         \* what the live object considers its contents

Init == /\ db = <<>> /\ dbuf = <<>> /\ tmp = <<>> /\ tbuf = <<>> /\ tmpExists = FALSE
        /\ prog = <<>> /\ kind = "idle" /\ old = <<>> /\ new = <<>> /\ nops = 0 /\ steps = 0

Idle == kind = "idle"

Start(k, p, n) == /\ Idle /\ nops < MaxOps
                  /\ kind' = k /\ prog' = p /\ old' = Logical /\ new' = n /\ nops' = nops + 1 /\ steps' = 0
                  /\ UNCHANGED <<db, dbuf, tmp, tbuf, tmpExists>>

StartInsert   == \E r \in Rows : Len(Logical) < MaxRows /\ Start("insert", AppendProg("db", r), Logical \o <<r>>)
StartInsert2  == \E r1, r2 \in Rows : Len(Logical) + 2 <= MaxRows
                    /\ Start("insert", AppendAll("db", <<r1, r2>>), Logical \o <<r1, r2>>)
(* a rewrite keeps any proper, non-empty subsequence (remove) - update is   *)
(* the same program with changed rows                                       *)
KeptSubsequences(s) == {t \in UNION {[1..n -> Rows] : n \in 1..(Len(s) - 1)} :
                 \E f \in [1..Len(t) -> 1..Len(s)] : (\A i \in 1..Len(t) : s[f[i]] = t[i]) /\ (\A i \in 1..(Len(t) - 1) : f[i] < f[i + 1])}
StartRewrite  == \E t \in KeptSubsequences(Logical) : Start("rewrite", RewriteProg(t), t)
StartReset    == Logical # <<>> /\ Start("reset", ResetProg, <<>>)

Half(s) == SubSeq(s, 1, Len(s) \div 2)

Exec ==
  /\ prog # <<>>
  /\ LET x == Head(prog) IN
     /\ prog' = Tail(prog)
     /\ steps' = steps + 1
     /\ kind' = IF Tail(prog) = <<>> THEN "idle" ELSE kind
     /\ UNCHANGED <<old, new, nops>>
     /\ CASE x.e = "write" /\ x.f = "db"  -> dbuf' = Append(dbuf, x.row) /\ UNCHANGED <<db, tmp, tbuf, tmpExists>>
          [] x.e = "write" /\ x.f = "tmp" -> tbuf' = Append(tbuf, x.row) /\ UNCHANGED <<db, dbuf, tmp, tmpExists>>
          [] x.e \in {"flush", "seek_end", "close"} /\ x.f = "db" ->      \* seeking and closing flush the buffer
               db' = db \o dbuf /\ dbuf' = <<>> /\ UNCHANGED <<tmp, tbuf, tmpExists>>
          [] x.e \in {"flush", "seek_end", "close"} /\ x.f = "tmp" ->
               tmp' = tmp \o tbuf /\ tbuf' = <<>> /\ UNCHANGED <<db, dbuf, tmpExists>>
          [] x.e = "seek0" -> db' = db \o dbuf /\ dbuf' = <<>> /\ UNCHANGED <<tmp, tbuf, tmpExists>>
          [] x.e = "truncate_here" /\ kind = "reset" -> db' = <<>> /\ UNCHANGED <<dbuf, tmp, tbuf, tmpExists>>
          [] x.e = "mktemp" -> tmpExists' = TRUE /\ tmp' = <<>> /\ tbuf' = <<>> /\ UNCHANGED <<db, dbuf>>
          [] x.e = "copy_open" -> db' = <<>> /\ UNCHANGED <<dbuf, tmp, tbuf, tmpExists>>
          [] x.e = "copy_half" -> db' = Half(tmp) /\ UNCHANGED <<dbuf, tmp, tbuf, tmpExists>>
          [] x.e \in {"copy_rest", "rename"} -> db' = tmp /\ UNCHANGED <<dbuf, tmp, tbuf, tmpExists>>
          [] x.e = "unlink" -> tmpExists' = FALSE /\ tmp' = <<>> /\ UNCHANGED <<db, dbuf, tbuf>>
          [] OTHER -> UNCHANGED <<db, dbuf, tmp, tbuf, tmpExists>>     \* fsync, truncate at end, reopen, copy_done

Next == StartInsert \/ StartInsert2 \/ StartRewrite \/ StartReset \/ Exec

(***************************************************************************)
IsPrefixOf(a, b) == Len(a) <= Len(b) /\ SubSeq(b, 1, Len(a)) = a

Allowed == {old, new} \cup (IF kind = "insert" THEN {SubSeq(new, 1, n) : n \in Len(old)..Len(new)} ELSE {})

CrashConsistent == Idle \/ db \in Allowed

InCopyWindow == kind = "rewrite" /\ prog # <<>> /\ Head(prog).e \in {"copy_half", "copy_rest"}

CrashConsistentOutsideCopyWindow == CrashConsistent \/ InCopyWindow

(* flush_on_insert = FALSE: an interrupted or even a completed insert may   *)
(* leave rows in the buffer; only earlier rows must never be lost           *)
EarlierRowsSafe == kind = "insert" => IsPrefixOf(db, new) /\ (FlushOnInsert => IsPrefixOf(old, db))

AppendOnly == (kind = "insert" /\ FlushOnInsert) => IsPrefixOf(old, db)

InsertCost == (kind = "insert") => steps <= 5 * (Len(new) - Len(old))

NoTempLeft == Idle => ~ tmpExists

FileHoldsContents == (Idle /\ FlushOnInsert) => db = Logical /\ dbuf = <<>>

TypeOK == /\ Len(Logical) <= MaxRows + 2 /\ kind \in {"idle", "insert", "rewrite", "reset"}
=============================================================================
