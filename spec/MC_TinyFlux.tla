---------------------------- MODULE MC_TinyFlux -----------------------------
(***************************************************************************)
(* Bounded instances of module TinyFlux.                                   *)
(*                                                                         *)
(*  Mode "check"  exhaustive exploration of the state graph over the       *)
(*                alphabet `Alpha` (states are deduplicated; the depth is  *)
(*                the diameter of the graph): all invariants and action    *)
(*                properties of the design.                                *)
(*  Mode "paths"  the same Next with a history variable, so that every     *)
(*                PATH up to length Depth is a distinct TLC state; paths   *)
(*                of length Depth are printed as JSON and replayed into    *)
(*                the real package by harness/walk.py (hidden              *)
(*                implementation state - stale arrays, file position -     *)
(*                depends on the path, not on the abstract state).         *)
(*                With -simulate the same module yields deep random        *)
(*                behaviours.                                              *)
(***************************************************************************)
EXTENDS TinyFlux, Json

CONSTANTS Mode, Alpha, MaxLen, Depth

VARIABLE hist

mcvars == <<store, ixValid, ix, hist>>

M == Missing
N == NoneV

Pt(t, m, tg, fd) == [t |-> t, m |-> m, tg |-> tg, fd |-> fd]
P1 == Pt(1, 1, <<1, M>>, <<1, M>>)
P2 == Pt(2, 1, <<2, 1>>, <<M, 2>>)
P3 == Pt(1, 2, <<N, M>>, <<N, M>>)      \* ties with P1 in time; None values
P4 == Pt(0, 2, <<M, M>>, <<2, 1>>)      \* earlier than everything: out of order after any other
P5 == Pt(3, 1, <<1, 1>>, <<M, M>>)
P6 == Pt(2, 3, <<M, 2>>, <<0, M>>)
Points == {P1, P2, P3, P4, P5, P6}

T(op, v)     == Atom("time", 0, op, v)
Me(op, v)    == Atom("meas", 0, op, v)
Tg(k, op, v) == Atom("tag", k, op, v)
Fd(k, op, v) == Atom("field", k, op, v)

TimeQs  == {T(op, v) : op \in CmpOps, v \in {1, 2}} \cup {AtomM("time", 0, 1, "eq", 2), AtomT("time", 0, 1, 0), T("noop", 0)}
MeasQs  == {Me("eq", 1), Me("ne", 1), Me("lt", 2), Me("ge", 2), Me("eq", 4), Me("matches", 1), Me("search", 2),
            AtomT("meas", 0, 1, 0), Me("noop", 0)}
TagQs   == {Tg(1, "eq", 1), Tg(1, "ne", 1), Tg(1, "lt", 2), Tg(1, "ge", 2), Tg(1, "eq", N), Tg(1, "ne", N),
            Tg(1, "exists", 0), Tg(2, "exists", 0), Tg(2, "eq", 1), Tg(1, "matches", 1), Tg(1, "search", 2),
            AtomT("tag", 1, 2, 0), AtomM("tag", 1, 2, "eq", 1), Atom2("tag", 1, 2, "eq", 1), Tg(1, "noop", 0)}
FieldQs == {Fd(1, "eq", 1), Fd(1, "ne", 1), Fd(1, "lt", 2), Fd(1, "le", 1), Fd(1, "gt", 0), Fd(1, "ge", 2),
            Fd(1, "eq", N), Fd(1, "ne", N), Fd(1, "exists", 0), Fd(2, "exists", 0), Fd(2, "eq", 2),
            AtomT("field", 1, 1, 0), AtomT("field", 1, 2, 0), AtomM("field", 1, 1, "eq", 2),
            AtomM("field", 1, 2, "eq", 1), Fd(1, "noop", 0)}
AtomQs  == TimeQs \cup MeasQs \cup TagQs \cup FieldQs
CompQs  == {Not(q) : q \in {Tg(1, "eq", 1), Fd(1, "eq", 1), Fd(1, "lt", 2), T("le", 1), Me("eq", 1), Fd(1, "exists", 0),
                            Tg(1, "matches", 1), Not(Fd(1, "eq", 1)), And(Tg(1, "eq", 1), Fd(1, "eq", 1))}}
           \cup {And(Not(Fd(1, "eq", 1)), Tg(1, "exists", 0)), And(Tg(1, "eq", 1), T("ge", 1)),
                 And(Fd(1, "exists", 0), T("lt", 2)), Or(Tg(1, "eq", 2), Fd(2, "eq", 2)),
                 Or(Not(Tg(1, "exists", 0)), Me("eq", 2)), And(Me("eq", 1), Not(T("eq", 1))),
                 Or(And(T("ge", 1), T("le", 2)), Fd(1, "eq", N)), Not(Or(Fd(1, "gt", 0), Tg(2, "exists", 0)))}
Queries == AtomQs \cup CompQs

MF == {N, 1, 2, 4}                       \* none, two present, one absent

U0 == NoopU
Updates == {
  [U0 EXCEPT !.tk = 1, !.tv = 0],                                  \* static time moving points to the front
  [U0 EXCEPT !.tk = 2, !.tv = 2],                                  \* callable time shift (reorders the axis)
  [U0 EXCEPT !.mk = 1, !.mv = 2],                                  \* static measurement (moves between measurements)
  [U0 EXCEPT !.tgk = 1, !.tgv = <<2, M>>],                         \* static tag merge
  [U0 EXCEPT !.tgk = 2, !.tgv = <<M, N>>],                         \* callable returning a partial mapping with None
  [U0 EXCEPT !.fdk = 1, !.fdv = <<1, M>>],                         \* static field merge; no change where already 1
  [U0 EXCEPT !.fdk = 3, !.fdv = <<0, M>>],                         \* callable incrementing an existing field
  [U0 EXCEPT !.utg = <<1>>],                                         \* unset a tag
  [U0 EXCEPT !.fdk = 1, !.fdv = <<M, 2>>, !.ufd = <<2>>],            \* set and unset the same key in one call
  [U0 EXCEPT !.tgk = 1, !.tgv = <<1, M>>, !.ufd = <<1>>, !.mk = 2, !.mv = 1]}

Op(op) == [op |-> op]
InsertOps(PS, MS) == {[op |-> "insert", p |-> p, m |-> m, compact |-> 0] : p \in PS, m \in MS}
RemoveOps(QS, MS) == {[op |-> "remove", q |-> q, m |-> m] : q \in QS, m \in MS}
UpdateOps(QS, MS, US) == {[op |-> "update", q |-> q, m |-> m, u |-> u, fail |-> 0] : q \in QS, m \in MS, u \in US}
CountOps(QS, MS) == {[op |-> "count", q |-> q, m |-> m] : q \in QS, m \in MS}

(***************************************************************************)
(* C14: the matrix of wrongly typed values.  kind "x0" is the falsy value  *)
(* of type x (0, 0.0, False, b"", [], {}, ""); the harness owns the        *)
(* concrete values, the specification owns which cells exist.              *)
(***************************************************************************)
BadKinds == {"int", "int0", "float", "float0", "bool", "bool0", "bytes", "bytes0", "none",
             "list", "list0", "dict", "dict0", "str", "str0",
             "numstr", "numbytes"}          \* text / bytes that LOOK like a number ("12.5", b"42"): still not numbers
TruthyKinds == {"int", "float", "bool", "bytes", "list", "dict", "str", "numstr", "numbytes"}
Slots == {"time", "measurement", "tagkey", "tagvalue", "fieldkey", "fieldvalue",
          "tagkey_none", "fieldkey_none"}          \* a wrongly typed key whose VALUE is None (a value check that skips None must not skip the key)
WrongFor(slot) ==
  CASE slot = "time" -> BadKinds
    [] slot = "measurement" -> BadKinds \ {"str", "str0", "numstr"}
    [] slot \in {"tagkey", "fieldkey", "tagkey_none", "fieldkey_none"} -> {"int", "int0", "float", "float0", "bool", "bool0", "bytes", "bytes0", "none"}
    [] slot = "tagvalue" -> BadKinds \ {"str", "str0", "numstr", "none"}
    [] slot = "fieldvalue" -> {"bool", "bool0", "bytes", "bytes0", "list", "list0", "dict", "dict0", "str", "str0", "numstr", "numbytes"}
(* a wrongly typed measurement name handed to insert: by keyword, positionally, for a stored point, and as the name of a  *)
(* Measurement handle through which a point (or a batch) is then inserted                                                 *)
InsertMeasEntries == {"insert_meas", "insert_meas_stored", "insert_meas_pos", "handle_insert", "handle_insert_multiple"}
StaticEntries   == {"update_static", "update_all_static", "handle_update_static"}
CallableEntries == {"update_callable", "update_all_callable", "handle_update_callable", "update_callable_inplace"}
KindsFor(entry, slot) ==
  CASE entry \in {"ctor", "setter"} -> WrongFor(slot)
    [] entry \in InsertMeasEntries -> IF slot = "measurement" THEN WrongFor(slot) \cap TruthyKinds ELSE {}
    [] entry = "update_callable_inplace" ->  \* the callable edits the mapping it is given and returns that same object
         IF slot \in {"time", "measurement"} THEN {} ELSE WrongFor(slot)
    [] entry \in StaticEntries ->           \* a falsy static time / measurement means "argument absent"
         IF slot \in {"time", "measurement"} THEN WrongFor(slot) \cap TruthyKinds ELSE WrongFor(slot)
    [] entry \in CallableEntries -> WrongFor(slot)
(* `with`: a VALID companion argument supplied in the same update call (a   *)
(* validation that only runs when the other arguments are absent is a hole)*)
Companions == {"none", "time", "measurement", "tags", "fields", "tags_callable", "fields_callable"}
CompanionArg(w) == CASE w = "tags_callable" -> "tags" [] w = "fields_callable" -> "fields" [] OTHER -> w
ArgOf(slot) == CASE slot = "time" -> "time" [] slot = "measurement" -> "measurement"
                 [] slot \in {"tagkey", "tagvalue", "tagkey_none"} -> "tags" [] OTHER -> "fields"
BadOps ==
  {[op |-> "bad", entry |-> e, slot |-> sl, kind |-> k, with |-> w,
    q |-> Me("noop", 0), m |-> IF e \in {"handle_update_static", "handle_update_callable"} THEN 1 ELSE N,
    needsel |-> IF e \in CallableEntries THEN 1 ELSE 0] :
     e \in {"ctor", "setter"} \cup InsertMeasEntries \cup StaticEntries \cup CallableEntries, sl \in Slots, k \in BadKinds, w \in Companions}

BadCells == {b \in BadOps :
               /\ b.kind \in KindsFor(b.entry, b.slot)
               /\ \/ b.with = "none"
                  \/ /\ b.entry \in {"update_static", "update_all_static", "update_callable"}
                     /\ CompanionArg(b.with) # ArgOf(b.slot)
                     /\ b.kind \in {"int", "str", "dict", "bool"}}
BadDone == \E i \in 1..Len(hist) : hist[i].op = "bad"

Alphabet ==
  CASE Alpha = "bad" ->       \* [inserts]* ; one bad call ; all() ; count()
         IF ~ BadDone THEN (IF Len(hist) < 2 THEN InsertOps({P1, P3}, {N}) ELSE {}) \cup BadCells
         ELSE CASE hist[Len(hist)].op = "bad" -> {[op |-> "all", m |-> N, sorted |-> 0]}
                [] hist[Len(hist)].op = "all" -> CountOps({T("noop", 0)}, {N})
                [] OTHER -> {}
    [] Alpha = "mc" ->       \* everything that changes the abstract state, broad vocabulary
         InsertOps(Points, {N}) \cup InsertOps({P1, P4}, {2})
         \cup {[op |-> "insert_multiple", ps |-> ps, m |-> N, bad |-> b] : ps \in {<<P1, P2>>, <<P2, P4>>, <<P5, P3>>}, b \in {0, 1}}
         \cup RemoveOps(Queries, MF)
         \cup {[op |-> "drop_measurement", m |-> m] : m \in {1, 2, 4}}
         \cup {Op("remove_all"), Op("reindex")} \cup CountOps({T("noop", 0)}, {N})
    [] Alpha = "update" ->
         InsertOps({P1, P2, P3, P4}, {N})
         \cup UpdateOps({T("noop", 0), Tg(1, "eq", 1), Fd(1, "exists", 0), Not(Fd(1, "eq", 1)), T("le", 1), Me("eq", 2)}, {N, 1}, Updates)
         \cup {[op |-> "update_all", u |-> u, fail |-> 0] : u \in Updates}
         \cup {Op("reindex")} \cup CountOps({T("noop", 0)}, {N})
    [] Alpha = "index" ->     \* index-history alphabet: ties, out of order, resets, partial removes, reads
         InsertOps({P1, P2, P3, P4, P5}, {N})
         \cup {Op("remove_all"), Op("reindex")}
         \cup RemoveOps({Tg(1, "eq", 1), T("le", 1), Fd(1, "exists", 0)}, {N})
         \cup CountOps({T("ge", 1)}, {N})
         \cup {[op |-> "get", q |-> Me("eq", 2), m |-> N]}
    [] Alpha = "remove" ->    \* C02: removals by every kind of query and filter, then reads and inserts
         InsertOps({P1, P2, P3, P4, P6}, {N})
         \cup RemoveOps({Tg(1, "eq", 1), Not(Tg(1, "eq", 1)), Fd(1, "exists", 0), Not(Fd(1, "eq", 1)), Fd(1, "lt", 2), T("le", 1), T("gt", 1),
                         Me("eq", 2), And(Not(Fd(1, "eq", 1)), Tg(1, "exists", 0)), Or(Tg(1, "eq", 2), Fd(2, "eq", 2)), T("noop", 0), Fd(1, "eq", N)}, {N, 1, 4})
         \cup {[op |-> "drop_measurement", m |-> m] : m \in {1, 2, 4}} \cup {Op("remove_all")}
         \cup CountOps({T("ge", 1)}, {N}) \cup {[op |-> "all", m |-> N, sorted |-> 0]}
    [] Alpha = "meas" ->      \* C10: the same operation through db.measurement(name) and through the database
         InsertOps({P1, P3, P6}, {N}) \cup {[op |-> "insert", p |-> P4, m |-> 1, compact |-> 0, via |-> "handle"]}
         \cup {[op |-> "remove", q |-> q, m |-> m, via |-> v] : q \in {Tg(1, "exists", 0), T("le", 1), Not(Fd(1, "eq", 1))}, m \in {1, 2, 4}, v \in {"handle", "db"}}
         \cup {[op |-> "drop_measurement", m |-> m, via |-> v] : m \in {1, 2}, v \in {"handle", "db"}}
         \cup {[op |-> "update", q |-> q, m |-> m, u |-> u, fail |-> 0, via |-> "handle"] :
                q \in {T("noop", 0), Tg(1, "exists", 0)}, m \in {1, 2}, u \in {[U0 EXCEPT !.mk = 1, !.mv = 2], [U0 EXCEPT !.fdk = 1, !.fdv = <<1, M>>]}}
         \cup {[op |-> "update_all", m |-> m, u |-> [U0 EXCEPT !.tgk = 1, !.tgv = <<2, M>>], fail |-> 0, via |-> "handle"] : m \in {1, 2}}
         \cup {[op |-> o, m |-> m, via |-> "handle"] : o \in {"get_tag_keys", "get_field_keys", "get_timestamps", "len", "repr"}, m \in {1, 2}}
         \cup {[op |-> "count", q |-> T("noop", 0), m |-> m, via |-> "handle"] : m \in {1, 2, 4}}
    [] Alpha = "fail" ->      \* C11: every raising call, then continuations
         InsertOps({P1, P3, P4}, {N})
         \cup {[op |-> "insert_multiple", ps |-> ps, m |-> N, bad |-> 1] : ps \in {<<>>, <<P2>>, <<P5, P3>>, <<P2, P4>>}}
         \cup {[op |-> "update", q |-> q, m |-> N, u |-> u, fail |-> k] :
                q \in {T("noop", 0), Tg(1, "exists", 0)}, u \in {[U0 EXCEPT !.tgk = 1, !.tgv = <<2, M>>], [U0 EXCEPT !.mk = 1, !.mv = 2]}, k \in {1, 2, 0 - 1, 0 - 2}}
         \cup {[op |-> "update", q |-> T("noop", 0), m |-> N, u |-> U0, fail |-> 0], [op |-> "update_all", u |-> U0, fail |-> 0]}
         \cup {[op |-> "update_all", u |-> [U0 EXCEPT !.utg = <<1>>], fail |-> k] : k \in {1, 2}}
         \cup CountOps({T("noop", 0), Tg(1, "exists", 0)}, {N}) \cup {Op("reindex"), [op |-> "all", m |-> N, sorted |-> 1]}
    [] OTHER -> {}

Do(a) == /\ (a.op \in {"insert"} => Len(store) < MaxLen)
         /\ (a.op = "insert_multiple" => Len(store) + Len(a.ps) <= MaxLen)
         /\ Step(a)

MCInit == Init /\ hist = <<>>
(* the action properties below, evaluated for the one operation taken - a  *)
(* cheap equivalent of checking them as [][...]_vars over the alphabet     *)
Checked(a) ==
  /\ Assert((a.op \in {"remove", "drop_measurement"}) => store' = RemoveStore(store, SelectedBy(a, store)),
            <<"ACTION-PROPERTY RemoveExact", a>>)
  /\ Assert((a.op \in {"update", "update_all"} /\ ~ MustRaise(a, store)) =>
               store' = UpdateStore(store, SelectedBy(a, store), a.u), <<"ACTION-PROPERTY UpdateExact", a>>)
  /\ Assert((a.op \in {"update", "update_all"} /\ MustRaise(a, store)) => store' = store,
            <<"ACTION-PROPERTY FailedOpChangesNothing", a>>)
  /\ Assert((a.op \in ReadOps \cup {"reindex"}) => store' = store, <<"ACTION-PROPERTY ReadsChangeNothing", a>>)
  /\ Assert((AutoIndex /\ a.op \in IndexingReads) => ixValid', <<"ACTION-PROPERTY ReadLeavesValid", a>>)
  /\ Assert(a.op \in {"insert", "insert_multiple"} => store' = StoreAfter(a, store), <<"ACTION-PROPERTY InsertAppends", a>>)

MCNext == \E a \in Alphabet :
            /\ Do(a)
            /\ hist' = IF Mode = "paths" THEN Append(hist, a) ELSE hist
            /\ (Mode = "check" => Checked(a))

PathBound == Len(hist) <= Depth
(* updates generate new points; keep the universe finite *)
ValueBound == \A i \in 1..Len(store) :
   /\ store[i].t <= 5 /\ store[i].m <= 4
   /\ \A k \in DOMAIN store[i].tg : store[i].tg[k] <= 3
   /\ \A k \in DOMAIN store[i].fd : store[i].fd[k] <= 3
EmitPaths == (Mode = "paths" /\ hist # <<>> /\ (Len(hist) = Depth \/ Alphabet = {})) => PrintT(<<"PATH", ToJson(hist)>>)

(***************************************************************************)
(* Properties of the design (Mode "check").                                *)
(***************************************************************************)
InvRebuild  == IndexIsRebuild
InvWF       == IndexWellFormed
InvGetters  == IndexGettersExact(MF)
InvSearch   == IndexSearchExact(Queries, MF)
InvTyped    == WellTyped(store)

(* Coherence laws of the documented meaning itself (Part 1 of TinyFlux),   *)
(* in every reachable state: the derived answers (count / contains / get / *)
(* select / sorted) are functions of search; a query and its negation      *)
(* partition the filtered points; the measurement filter partitions the    *)
(* store; removing nothing / everything.  A slip in the oracle's own       *)
(* definitions would otherwise be judged "right" on both sides.            *)
Nondecr(S) == \A i \in 1..(Len(S) - 1) : S[i].t <= S[i + 1].t
IsSubSeqOf(S, s) == \E K \in SUBSET (1..Len(s)) : S = PointsAt(s, SortedPos(K))
InvLaws ==
  /\ \A q \in Queries, m \in MF :
       LET U == SearchRes(store, q, m, FALSE)
           S == SearchRes(store, q, m, TRUE) IN
       /\ CountRes(store, q, m) = Len(U) /\ Len(S) = Len(U)
       /\ ContainsRes(store, q, m) <=> Len(U) > 0
       /\ GetRes(store, q, m) = IF U = <<>> THEN <<>> ELSE <<U[1]>>
       /\ Nondecr(S) /\ IsSubSeqOf(U, store)
       /\ \A x \in 1..Len(U) : InMeas(U[x], m)
       /\ Len(SelectRes(store, <<[k |-> "time", key |-> 0]>>, q, m)) = Len(U)
       /\ Sel(store, q, m) \cup Sel(store, Not(q), m) = AllPos(store, m)
       /\ Sel(store, q, m) \cap Sel(store, Not(q), m) = {}
       /\ Sel(store, Not(Not(q)), m) = Sel(store, q, m)
  /\ \A m \in MF : /\ LenRes(store, m) = Len(IterRes(store, m))
                     /\ Len(TimestampsRes(store, m)) = LenRes(store, m)
                     /\ Len(AllRes(store, m, TRUE)) = LenRes(store, m) /\ Nondecr(AllRes(store, m, TRUE))
                     /\ AllRes(store, m, FALSE) = IterRes(store, m)
  /\ LenRes(store, N) = Len(store) /\ IterRes(store, N) = store
  /\ \A m \in {x \in MF : x # N} : (LenRes(store, m) > 0) <=> (\E x \in 1..Len(MeasurementsRes(store)) : MeasurementsRes(store)[x] = m)
  /\ RemoveStore(store, {}) = store /\ RemoveStore(store, 1..Len(store)) = <<>>
  /\ UpdateStore(store, 1..Len(store), NoopU) = store /\ UpdateCount(store, 1..Len(store), NoopU) = 0

(* the two read paths agree with the documented meaning in every state     *)
ReadsAgree == \A q \in Queries, m \in MF : Matching(q, m) = Sel(store, q, m)

(* remove deletes exactly the selected points, keeps the others in order   *)
RemoveExact ==
  [][\A a \in Alphabet : (a.op \in {"remove", "drop_measurement"} /\ Step(a)) =>
        store' = RemoveStore(store, SelectedBy(a, store))]_<<store, ixValid, ix>>
UpdateExact ==
  [][\A a \in Alphabet : (a.op \in {"update", "update_all"} /\ ~ MustRaise(a, store) /\ Step(a)) =>
        store' = UpdateStore(store, SelectedBy(a, store), a.u)]_<<store, ixValid, ix>>
ReadsChangeNothing ==
  [][\A a \in Alphabet : (a.op \in ReadOps \cup {"reindex"} /\ Step(a)) => store' = store]_<<store, ixValid, ix>>
KeepsValid == InOrderInsertKeepsValid
ReadLeavesValid ==
  [][\A a \in Alphabet : (AutoIndex /\ a.op \in IndexingReads /\ Step(a)) => ixValid']_<<store, ixValid, ix>>
=============================================================================
