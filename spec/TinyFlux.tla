------------------------------- MODULE TinyFlux -------------------------------
(***************************************************************************)
(* TinyFlux as a state machine: the logical contents `store` (a sequence   *)
(* of points in insertion order), the in-memory index `ix` with its        *)
(* `ixValid` flag, and one action per public operation of                  *)
(* tinyflux/database.py / measurement.py.                                  *)
(*                                                                         *)
(* PART 1 defines, purely on `store`, what every operation returns and     *)
(* what it leaves behind - the meaning the documentation gives.  These     *)
(* operators are the single oracle: the bounded model (MC_TinyFlux), the   *)
(* behaviour export and the trace specification (Trace_TinyFlux) all use   *)
(* them, so a recorded execution of the real package is judged against     *)
(* exactly what TLC model-checked.                                         *)
(*                                                                         *)
(* PART 2 is the machine as the code runs it: reads and writes take the    *)
(* INDEX PATH when the index is valid and the SCAN PATH otherwise, inserts *)
(* extend or invalidate the index, removes patch it, updates rebuild it.   *)
(* The invariants and action properties of PART 3 say that the two paths   *)
(* and the incremental maintenance agree with PART 1.                      *)
(***************************************************************************)
EXTENDS Index, TLC

CONSTANT AutoIndex          \* the auto_index constructor flag

VARIABLES store, ixValid, ix

vars == <<store, ixValid, ix>>

(***************************************************************************)
(*                       PART 1 - documented meaning                       *)
(***************************************************************************)

SortedPos(P) == SetToSortSeq(P, <)                              \* insertion order
TimeSortedPos(s, P) == SetToSortSeq(P, LAMBDA a, b : s[a].t < s[b].t \/ (s[a].t = s[b].t /\ a < b))
PointsAt(s, K) == [x \in 1..Len(K) |-> s[K[x]]]

(* ---- reads ------------------------------------------------------------ *)
SearchRes(s, q, m, sorted) ==
  LET P == Sel(s, q, m) IN PointsAt(s, IF sorted THEN TimeSortedPos(s, P) ELSE SortedPos(P))
CountRes(s, q, m)    == Cardinality(Sel(s, q, m))
ContainsRes(s, q, m) == Sel(s, q, m) # {}
(* get: <<>> for None, <<point>> otherwise (first match in insertion order) *)
GetRes(s, q, m)      == LET P == Sel(s, q, m) IN IF P = {} THEN <<>> ELSE <<s[MinOf(P)]>>

(* select keys: [k |-> "time" | "meas" | "tag" | "field", key |-> i]       *)
KeyVal(p, sk) == CASE sk.k = "time"  -> p.t
                   [] sk.k = "meas"  -> p.m
                   [] sk.k = "tag"   -> IF sk.key \in TagKeysOf(p) THEN p.tg[sk.key] ELSE NoneV
                   [] sk.k = "field" -> IF sk.key \in FieldKeysOf(p) THEN p.fd[sk.key] ELSE NoneV
SelectRes(s, keys, q, m) ==
  LET K == SortedPos(Sel(s, q, m)) IN
  [x \in 1..Len(K) |-> [y \in 1..Len(keys) |-> KeyVal(s[K[x]], keys[y])]]

AllPos(s, m) == {i \in 1..Len(s) : InMeas(s[i], m)}
AllRes(s, m, sorted) == PointsAt(s, IF sorted THEN TimeSortedPos(s, AllPos(s, m)) ELSE SortedPos(AllPos(s, m)))
LenRes(s, m)  == Cardinality(AllPos(s, m))
IterRes(s, m) == PointsAt(s, SortedPos(AllPos(s, m)))

(* ---- exploration getters ------------------------------------------------ *)
NoneLast(a, b) == (a # NoneV /\ b = NoneV) \/ (a # NoneV /\ b # NoneV /\ a < b)

MeasurementsRes(s) == SetToSortSeq({s[i].m : i \in 1..Len(s)}, <)
TagKeySet(s, m)    == UNION {TagKeysOf(s[i]) : i \in AllPos(s, m)}
FieldKeySet(s, m)  == UNION {FieldKeysOf(s[i]) : i \in AllPos(s, m)}
TagKeysRes(s, m)   == SetToSortSeq(TagKeySet(s, m), <)
FieldKeysRes(s, m) == SetToSortSeq(FieldKeySet(s, m), <)
TagValueSet(s, k, m) == {s[i].tg[k] : i \in {i \in AllPos(s, m) : k \in TagKeysOf(s[i])}}
(* result of get_tag_values(keys, m) as a function key -> sorted values,   *)
(* None last; requested keys that do not occur map to <<>>; with no        *)
(* request (keys = {}) exactly the occurring keys are present.             *)
TagValuesRes(s, keys, m) ==
  LET D == IF keys = {} THEN TagKeySet(s, m) ELSE keys IN
  [k \in D |-> SetToSortSeq(TagValueSet(s, k, m), NoneLast)]
(* the same as a sequence of <<key, values>> pairs ordered by key (the     *)
(* shape used in traces)                                                   *)
TagValuesPairs(s, keys, m) ==
  LET f == TagValuesRes(s, keys, m)
      K == SetToSortSeq(DOMAIN f, <)
  IN [x \in 1..Len(K) |-> <<K[x], f[K[x]]>>]
FieldValuesRes(s, k, m) ==
  LET K == SortedPos({i \in AllPos(s, m) : k \in FieldKeysOf(s[i])}) IN [x \in 1..Len(K) |-> s[K[x]].fd[k]]
TimestampsRes(s, m) == LET K == SortedPos(AllPos(s, m)) IN [x \in 1..Len(K) |-> s[K[x]].t]

(* ---- writes --------------------------------------------------------------- *)
WithMeas(p, m)       == IF m = NoneV THEN p ELSE [p EXCEPT !.m = m]
InsertStore(s, p, m) == Append(s, WithMeas(p, m))
RECURSIVE InsertManyStore(_, _, _)
InsertManyStore(s, ps, m) == IF ps = <<>> THEN s ELSE InsertManyStore(InsertStore(s, Head(ps), m), Tail(ps), m)

RemoveStore(s, R) == PointsAt(s, SortedPos((1..Len(s)) \ R))

(* An update is a record                                                   *)
(*   tk, tv   time:        0 absent | 1 static instant tv | 2 callable old + tv            *)
(*   mk, mv   measurement: 0 absent | 1 static mv         | 2 callable old + mv            *)
(*   tgk, tgv tags:   0 absent | 1 static mapping tgv | 2 callable returning mapping tgv   *)
(*                    | 3 callable returning {k : successor of old[k]} for the keys of tgv *)
(*                      that the point has with a proper (non-None) value                  *)
(*                    | 4 callable that modifies the mapping it is given in place (sets    *)
(*                      the entries of tgv) and returns that same object                   *)
(*   fdk, fdv fields: likewise                                                             *)
(*   utg, ufd sequences of tag / field keys to unset                                       *)
(* A mapping is a sequence over the key indices with Missing for absent.   *)
MergeMap(old, kind, new) ==
  CASE kind = 0 -> old
    [] kind \in {1, 2, 4} -> [k \in DOMAIN old |-> IF new[k] # Missing THEN new[k] ELSE old[k]]
    [] kind = 3 -> [k \in DOMAIN old |-> IF new[k] # Missing /\ IsVal(old[k]) THEN old[k] + 1 ELSE old[k]]
Unset(map, keys) == [k \in DOMAIN map |-> IF k \in Ran(keys) THEN Missing ELSE map[k]]

ApplyUpdate(u, p) ==
  [t  |-> CASE u.tk = 0 -> p.t [] u.tk = 1 -> u.tv [] u.tk = 2 -> p.t + u.tv,
   m  |-> CASE u.mk = 0 -> p.m [] u.mk = 1 -> u.mv [] u.mk = 2 -> p.m + u.mv,
   tg |-> Unset(MergeMap(p.tg, u.tgk, u.tgv), u.utg),      \* merge first, unset last
   fd |-> Unset(MergeMap(p.fd, u.fdk, u.fdv), u.ufd)]

UpdateIsEmpty(u) == u.tk = 0 /\ u.mk = 0 /\ u.tgk = 0 /\ u.fdk = 0 /\ u.utg = <<>> /\ u.ufd = <<>>

UpdateStore(s, R, u) == [i \in 1..Len(s) |-> IF i \in R THEN ApplyUpdate(u, s[i]) ELSE s[i]]
UpdateCount(s, R, u) == Cardinality({i \in R : ApplyUpdate(u, s[i]) # s[i]})

NoopU == [tk |-> 0, tv |-> 0, mk |-> 0, mv |-> 0, tgk |-> 0, tgv |-> <<>>, fdk |-> 0, fdv |-> <<>>, utg |-> <<>>, ufd |-> <<>>]

(* ---- well-typedness (C14): every stored value is a rank, None only      *)
(* where allowed                                                           *)
WellTyped(s) == \A i \in 1..Len(s) :
   /\ s[i].t >= 0 /\ s[i].m >= 0
   /\ \A k \in DOMAIN s[i].tg : s[i].tg[k] >= Missing
   /\ \A k \in DOMAIN s[i].fd : s[i].fd[k] >= Missing

(***************************************************************************)
(*                    PART 2 - the machine as the code runs it             *)
(***************************************************************************)
Init == store = <<>> /\ ixValid = TRUE /\ ix = EmptyIx

MeasQ(m) == Atom("meas", 0, "eq", m)

(* positions the code works on: index path when valid, scan path otherwise *)
Matching(q, m) ==
  IF ixValid THEN IxSearch(ix, IF m = NoneV THEN q ELSE And(MeasQ(m), q))
  ELSE Sel(store, q, m)

(* read_op: with auto_index an invalid index is rebuilt before the method  *)
Reindexed == IF AutoIndex /\ ~ ixValid THEN [v |-> TRUE, x |-> IxBuild(store)] ELSE [v |-> ixValid, x |-> ix]

Read ==            \* any read entry point (search, count, get, getters ...)
  /\ ixValid' = Reindexed.v /\ ix' = Reindexed.x /\ UNCHANGED store

Reindex ==
  /\ ~ ixValid
  /\ ixValid' = TRUE /\ ix' = IxBuild(store) /\ UNCHANGED store

Latest(x) == x.ts[Len(x.ts)]

(* one step of _insert_helper's loop *)
InsertIx(v, x, p) ==
  IF AutoIndex /\ v
  THEN IF x.n > 0 /\ p.t < Latest(x) THEN [v |-> FALSE, x |-> EmptyIx]
       ELSE [v |-> TRUE, x |-> IxAppend(x, p)]
  ELSE [v |-> v, x |-> x]

RECURSIVE InsertManyIx(_, _, _)
InsertManyIx(v, x, ps) == IF ps = <<>> THEN [v |-> v, x |-> x]
                          ELSE LET r == InsertIx(v, x, Head(ps)) IN InsertManyIx(r.v, r.x, Tail(ps))

(* insert_multiple(ps, m); `complete` = FALSE models a non-Point element   *)
(* after the points ps: the call raises after having stored ps, and the    *)
(* final "auto_index off => invalidate" step must still have happened.     *)
InsertMany(ps, m) ==
  LET qs == [i \in 1..Len(ps) |-> WithMeas(ps[i], m)]
      r  == InsertManyIx(ixValid, ix, qs)
  IN /\ store' = InsertManyStore(store, ps, m)
     /\ IF ~ AutoIndex /\ Len(ps) > 0 THEN ixValid' = FALSE /\ ix' = EmptyIx
        ELSE ixValid' = r.v /\ ix' = r.x

Insert(p, m) == InsertMany(<<p>>, m)

(* remove / drop_measurement: read_op first, then the three branches of    *)
(* _remove_helper: nothing / everything (reset) / partial (rewrite+patch)  *)
RemoveSel(R0(_)) ==
  LET rd == Reindexed
      R  == R0(rd)
  IN IF R = {} THEN /\ UNCHANGED store /\ ixValid' = rd.v /\ ix' = rd.x
     ELSE /\ store' = RemoveStore(store, R)
          /\ IF AutoIndex
             THEN /\ ixValid' = TRUE
                  /\ ix' = IF R = 1..Len(store) THEN EmptyIx ELSE IxRemove(rd.x, R)
             ELSE /\ ixValid' = FALSE /\ ix' = EmptyIx

MatchingIn(rd, q, m) ==
  IF rd.v THEN IxSearch(rd.x, IF m = NoneV THEN q ELSE And(MeasQ(m), q)) ELSE Sel(store, q, m)

RemoveQ(q, m) == RemoveSel(LAMBDA rd : MatchingIn(rd, q, m))
DropMeasurement(m) == RemoveQ(MeasQ(m), m)
RemoveAll ==
  /\ store' = <<>>
  /\ IF AutoIndex THEN ixValid' = TRUE /\ ix' = EmptyIx ELSE ixValid' = FALSE /\ ix' = EmptyIx

(* update(q, ..., _measurement=m) / update_all *)
Update(q, m, u) ==
  LET rd == Reindexed
      R  == MatchingIn(rd, q, m)
      n  == UpdateCount(store, R, u)
  IN IF n = 0 THEN /\ UNCHANGED store /\ ixValid' = rd.v /\ ix' = rd.x
     ELSE /\ store' = UpdateStore(store, R, u)
          /\ IF AutoIndex THEN ixValid' = TRUE /\ ix' = IxBuild(store')
             ELSE ixValid' = FALSE /\ ix' = EmptyIx

(* an operation that raises before touching storage (bad arguments, a      *)
(* callable that raises or returns an invalid value): read_op has run      *)
Fails == Read

(***************************************************************************)
(*                    PART 3 - what must always hold                       *)
(***************************************************************************)
IndexIsRebuild == ixValid => ix = IxBuild(store)

IndexWellFormed == IxWellFormed(ix)

IndexGettersExact(MF) ==
  ixValid => \A m \in MF :
     /\ IxMeasurements(ix) = {store[i].m : i \in 1..Len(store)}
     /\ IxTagKeys(ix, m) = TagKeySet(store, m)
     /\ IxFieldKeys(ix, m) = FieldKeySet(store, m)
     /\ IxTimestamps(ix, m) = TimestampsRes(store, m)
     /\ \A k \in TagKeySet(store, NoneV) : IxTagValues(ix, k, m) = TagValueSet(store, k, m)
     /\ \A k \in FieldKeySet(store, NoneV) : IxFieldValues(ix, k, m) = FieldValuesRes(store, k, m)

IndexSearchExact(Q, MF) ==
  ixValid => \A q \in Q, m \in MF :
     IxSearch(ix, IF m = NoneV THEN q ELSE And(MeasQ(m), q)) = Sel(store, q, m)

(* with auto_index: an in-order insert on a valid index keeps it valid     *)
InOrderInsertKeepsValid ==
  [][(AutoIndex /\ ixValid /\ Len(store') = Len(store) + 1
       /\ (Len(store) = 0 \/ \A i \in 1..Len(store) : store[i].t <= store'[Len(store')].t))
      => ixValid']_vars

(***************************************************************************)
(*           PART 4 - operations as data (shared with the traces)          *)
(*                                                                         *)
(* An operation is a record with field `op` and its arguments; the same    *)
(* shape is used by the bounded model's alphabet, by the behaviours TLC    *)
(* exports for replay, and by the events recorded from the real package.   *)
(*   m = NoneV means "no measurement filter"; sorted / compact are 0 / 1.  *)
(***************************************************************************)
ReadOps == {"search", "count", "contains", "get", "select", "all", "len", "iter", "repr",
            "get_measurements", "get_tag_keys", "get_tag_values", "get_field_keys",
            "get_field_values", "get_timestamps"}
(* entry points wrapped in read_op (they rebuild an invalid index when     *)
(* auto_index is on); len, iteration and repr() are served without it.     *)
(* repr(db) / repr(handle) print a point count only while the index is     *)
(* valid: the logged result is that count, or NoneV when none is printed.  *)
IndexingReads == ReadOps \ {"len", "iter", "repr"}

SelectedBy(a, s) == CASE a.op \in {"remove", "update"} -> Sel(s, a.q, a.m)
                      [] a.op = "drop_measurement" -> AllPos(s, a.m)
                      [] a.op = "update_all" -> AllPos(s, IF "m" \in DOMAIN a THEN a.m ELSE NoneV)

(* does the operation raise?  (bad = a non-Point element after the points; *)
(* fail = k > 0: the update callable raises on the k-th selected point;    *)
(* fail = -k: it returns an invalid value there; either only happens if at *)
(* least k points are selected)                                            *)
(* op "bad": a wrongly typed value supplied through API entry `entry` in   *)
(* slot `slot` (C14).  It must be rejected with ValueError / TypeError;    *)
(* entries that hand the value over through an update callable only get to *)
(* see it when a point is selected (needsel = 1).                          *)
MustRaise(a, s) ==
  CASE a.op = "bad" -> IF a.needsel = 1 THEN Sel(s, a.q, a.m) # {} ELSE TRUE
    [] a.op = "insert_multiple" -> a.bad = 1
    [] a.op \in {"update", "update_all"} ->
         UpdateIsEmpty(a.u) \/ (a.fail # 0 /\ Cardinality(SelectedBy(a, s)) >= (IF a.fail < 0 THEN 0 - a.fail ELSE a.fail))
    [] OTHER -> FALSE

(* A point without a time (t = NowT) receives the insertion time: one stamp  *)
(* per call, logged as a.now - a rank >= NowBase, later than every instant  *)
(* of the theme and not earlier than any stamp handed out before.           *)
NowT == -5
NowBase == 1000
HasNow(a) == "now" \in DOMAIN a
Stamp(p, a) == IF p.t = NowT /\ HasNow(a) THEN [p EXCEPT !.t = a.now] ELSE p
StampAll(ps, a) == [i \in 1..Len(ps) |-> Stamp(ps[i], a)]
NowOK(a, s) == HasNow(a) => /\ a.now >= NowBase
                            /\ \A i \in 1..Len(s) : s[i].t >= NowBase => s[i].t <= a.now

StoreAfter(a, s) ==
  CASE a.op = "insert" -> InsertStore(s, Stamp(a.p, a), a.m)
    [] a.op = "insert_multiple" -> InsertManyStore(s, StampAll(a.ps, a), a.m)      \* also when it raises after ps
    [] a.op \in {"remove", "drop_measurement"} -> RemoveStore(s, SelectedBy(a, s))
    [] a.op = "remove_all" -> <<>>
    [] a.op \in {"update", "update_all"} ->
         IF MustRaise(a, s) THEN s ELSE UpdateStore(s, SelectedBy(a, s), a.u)
    [] OTHER -> s

Bool01(b) == IF b THEN 1 ELSE 0

Result(a, s) ==
  CASE a.op = "insert" -> 1
    [] a.op = "insert_multiple" -> Len(a.ps)
    [] a.op \in {"remove", "drop_measurement"} -> Cardinality(SelectedBy(a, s))
    [] a.op = "remove_all" -> NoneV
    [] a.op \in {"update", "update_all"} -> UpdateCount(s, SelectedBy(a, s), a.u)
    [] a.op = "bad" -> 0                         \* only reached when nothing was selected
    [] a.op \in {"reindex", "reopen", "close"} -> NoneV
    [] a.op = "search"   -> SearchRes(s, a.q, a.m, a.sorted = 1)
    [] a.op = "count"    -> CountRes(s, a.q, a.m)
    [] a.op = "contains" -> Bool01(ContainsRes(s, a.q, a.m))
    [] a.op = "get"      -> GetRes(s, a.q, a.m)
    [] a.op = "select"   -> SelectRes(s, a.keys, a.q, a.m)
    [] a.op = "all"      -> AllRes(s, a.m, a.sorted = 1)
    [] a.op = "len"      -> LenRes(s, a.m)
    [] a.op = "repr"     -> LenRes(s, a.m)
    [] a.op = "iter"     -> IterRes(s, a.m)
    [] a.op = "get_measurements" -> MeasurementsRes(s)
    [] a.op = "get_tag_keys"     -> TagKeysRes(s, a.m)
    [] a.op = "get_field_keys"   -> FieldKeysRes(s, a.m)
    [] a.op = "get_tag_values"   -> TagValuesPairs(s, Ran(a.keys), a.m)
    [] a.op = "get_field_values" -> FieldValuesRes(s, a.key, a.m)
    [] a.op = "get_timestamps"   -> TimestampsRes(s, a.m)

(* the machine's transition for an operation record (code's own policy)    *)
Step(a) ==
  CASE a.op = "insert" -> Insert(a.p, a.m)
    [] a.op = "insert_multiple" -> InsertMany(a.ps, a.m)
    [] a.op = "remove" -> RemoveQ(a.q, a.m)
    [] a.op = "drop_measurement" -> DropMeasurement(a.m)
    [] a.op = "remove_all" -> RemoveAll
    [] a.op = "update" -> IF MustRaise(a, store) THEN Fails ELSE Update(a.q, a.m, a.u)
    [] a.op = "update_all" -> IF MustRaise(a, store) THEN Fails
                              ELSE Update(Atom("tag", 0, "noop", 0), NoneV, a.u)
    [] a.op = "reindex" -> IF ixValid THEN UNCHANGED vars ELSE Reindex
    [] a.op \in IndexingReads -> Read
    [] a.op = "bad" -> IF a.entry \in {"ctor", "setter"} THEN UNCHANGED vars ELSE Fails
    [] OTHER -> UNCHANGED vars

(* Envelope for the validity flag of a real execution (C06): what the      *)
(* property demands, not the code's exact policy.                          *)
(* Measurement.all() is list(iter(handle)): like iteration it is served     *)
(* without the index, so nothing is demanded of the flag there             *)
ViaHandle(a) == "via" \in DOMAIN a /\ a.via = "handle"
InOrderAfter(s, ps) == \A i \in 1..Len(ps) : \A j \in 1..Len(s) : s[j].t <= ps[i].t
RECURSIVE NonDecreasing(_)
NonDecreasing(ps) == \A i \in 1..(Len(ps) - 1) : ps[i].t <= ps[i + 1].t
ValidAllowed(a, s, vBefore, vAfter, raised) ==
  /\ (AutoIndex /\ ~ raised /\ a.op \in IndexingReads /\ ~ (ViaHandle(a) /\ a.op = "all")) => vAfter
  /\ (AutoIndex /\ vBefore /\ ~ raised /\ a.op = "insert" /\ InOrderAfter(s, <<Stamp(a.p, a)>>)) => vAfter
  /\ (AutoIndex /\ vBefore /\ ~ raised /\ a.op = "insert_multiple"
        /\ InOrderAfter(s, StampAll(a.ps, a)) /\ NonDecreasing(StampAll(a.ps, a))) => vAfter
=============================================================================
