----------------------------- MODULE Apa_Bisect ------------------------------
(***************************************************************************)
(* Typed copy of the Bisect operators for Apalache: the boundary laws are  *)
(* checked SYMBOLICALLY for every sorted integer list of length <= MaxN    *)
(* and every integer probe (no finite value domain), complementing TLC's   *)
(* enumeration over a 5-value domain.  Reported by C18 (thorough tier)     *)
(* only if Apalache finishes within its time limit.                        *)
(***************************************************************************)
EXTENDS Integers, Sequences, FiniteSets

CONSTANT
  \* @type: Int;
  MaxN

VARIABLES
  \* @type: Seq(Int);
  l,
  \* @type: Int;
  x

NoneI == -1

CInit == MaxN = 6

\* @type: (Seq(Int)) => Bool;
SortedAsc(s) == \A i \in DOMAIN s : \A j \in DOMAIN s : i < j => s[i] <= s[j]

\* @type: (Set(Int)) => Int;
LeftmostOr(S)  == IF S = {} THEN NoneI ELSE (CHOOSE a \in S : \A b \in S : a <= b) - 1
\* @type: (Set(Int)) => Int;
RightmostOr(S) == IF S = {} THEN NoneI ELSE (CHOOSE a \in S : \A b \in S : a >= b) - 1

FindEq == LeftmostOr ({i \in DOMAIN l : l[i] = x})
FindLt == RightmostOr({i \in DOMAIN l : l[i] < x})
FindLe == RightmostOr({i \in DOMAIN l : l[i] <= x})
FindGt == LeftmostOr ({i \in DOMAIN l : l[i] > x})
FindGe == LeftmostOr ({i \in DOMAIN l : l[i] >= x})

\* @type: (Int) => Set(Int);
PrefixUpTo(r) == IF r = NoneI THEN {} ELSE {i \in DOMAIN l : i <= r + 1}
\* @type: (Int) => Set(Int);
SuffixFrom(r) == IF r = NoneI THEN {} ELSE {i \in DOMAIN l : i >= r + 1}

Init == /\ l \in {<<>>} /\ x = 0
Next == \/ /\ Len(l) < MaxN
           /\ \E v \in Int : l' = Append(l, v) /\ (Len(l) = 0 \/ l[Len(l)] <= v)
           /\ UNCHANGED x
        \/ /\ \E v \in Int : x' = v
           /\ UNCHANGED l

Laws ==
  /\ SortedAsc(l)
  /\ PrefixUpTo(FindLt) = {i \in DOMAIN l : l[i] < x}
  /\ PrefixUpTo(FindLe) = {i \in DOMAIN l : l[i] <= x}
  /\ SuffixFrom(FindGt) = {i \in DOMAIN l : l[i] > x}
  /\ SuffixFrom(FindGe) = {i \in DOMAIN l : l[i] >= x}
  /\ (FindEq = NoneI => \A i \in DOMAIN l : l[i] # x)
  /\ (FindEq # NoneI => l[FindEq + 1] = x /\ \A i \in DOMAIN l : i <= FindEq => l[i] < x)
=============================================================================
