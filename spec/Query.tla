-------------------------------- MODULE Query --------------------------------
(***************************************************************************)
(* Abstract value domain, points, and the meaning of the TinyFlux query    *)
(* DSL (tinyflux/queries.py) - the reference interpreter `Eval`.           *)
(*                                                                         *)
(* Values are *ranks*: small integers whose order (and equality) is the    *)
(* only thing the DSL looks at.  A "theme" of the harness maps ranks       *)
(* order-isomorphically to real datetimes / strings / numbers, so the same *)
(* specification judges plain, CSV-hostile and edge-case values.           *)
(*                                                                         *)
(*   NoneV    the Python value None (allowed as tag / field value)         *)
(*   Missing  the key is not in the tag / field dictionary                 *)
(*   Undef    a function in the query path raised (query is false)         *)
(*                                                                         *)
(* A point is [t, m, tg, fd]: instant rank, measurement rank, and for each *)
(* tag key 1..NTK / field key 1..NFK the value rank, NoneV or Missing.     *)
(*                                                                         *)
(* Properties C09 (meaning, never raises) and C17 (equality of queries)    *)
(* are stated on this module; every other module uses Eval as the          *)
(* definition of "the points a query selects".                             *)
(***************************************************************************)
EXTENDS Integers, Sequences, FiniteSets

NoneV   == -1
Missing == -2
Undef   == -3

IsVal(v) == v >= 0              \* a proper (non-None, present) value
Ran(f) == {f[x] : x \in DOMAIN f}

(***************************************************************************)
(* Query AST.  Atoms are records with the same fields for every kind so    *)
(* that TLC, the JSON trace format and the harness share one shape:        *)
(*   k    "time" | "meas" | "tag" | "field"      attribute addressed       *)
(*   key  tag / field key (1..), 0 for time and measurement                *)
(*   key2 second path element (TagQuery().a.b), 0 if none                  *)
(*   mf   map function id put in the path (.map(f)), 0 if none             *)
(*   op   "eq" "ne" "lt" "le" "gt" "ge" "exists" "matches" "search"        *)
(*        "test" "noop"                                                    *)
(*   v    right-hand side rank / NoneV; pattern id for regex ops;          *)
(*        extra argument for "test"                                        *)
(*   tf   test function id for "test"                                      *)
(* Compound nodes: [k |-> "not", a], [k |-> "and"|"or", a, b].             *)
(* Opaque nodes: [k |-> "opaque", vec] - a user callable the spec cannot   *)
(* interpret, logged with its truth value per stored position.             *)
(***************************************************************************)

CmpOps == {"eq", "ne", "lt", "le", "gt", "ge"}

(* Regular expressions: pattern ids over the abstract string domain        *)
(*   rank 0 "" (or a string without a,b,c)  1 "a"  2 "ab"  3 "b"  4 "ba"   *)
(*   5 "c"; larger ranks are strings matching none of the patterns         *)
(*   1: "a.*"   2: "b$"   3: ".*"   4: "A.*" with re.IGNORECASE            *)
(*   5: "A.*" without flags                                                *)
(* `matches` anchors at the start (and, on these patterns, prefix- and     *)
(* whole-string matching coincide - see DESIGN.md appendix A); `search`    *)
(* matches anywhere.  On None both are false.                              *)
ReMatch(pat)  == CASE pat = 1 -> {1, 2} [] pat = 2 -> {3} [] pat = 3 -> 0..99
                   [] pat = 4 -> {1, 2} [] OTHER -> {}
ReSearch(pat) == CASE pat = 1 -> {1, 2, 4} [] pat = 2 -> {2, 3} [] pat = 3 -> 0..99
                   [] pat = 4 -> {1, 2, 4} [] OTHER -> {}

(* Functions usable in .map(f): total on ranks unless stated.              *)
(*   1: successor (value + 1 rank); raises on None                         *)
(*   2: None -> rank 1, anything else -> rank 0   (total, also on None)    *)
(*   3: identity on ranks < 2, raises otherwise                            *)
(*   9: identity, but placed BEFORE the key in the path                    *)
(*      (TagQuery().map(f).key ...): f receives the whole tag / field      *)
(*      dictionary and returns it; the meaning is that of the plain atom   *)
MapFn(f, v) == CASE f = 1 -> IF v = NoneV THEN Undef ELSE v + 1
                 [] f = 2 -> IF v = NoneV THEN 1 ELSE 0
                 [] f = 3 -> IF v = NoneV \/ v >= 2 THEN Undef ELSE v
                 [] f = 9 -> v
                 [] OTHER -> Undef

(* Functions usable in .test(f, arg); all total (also on None).            *)
(*   1: value is not None and has even rank                                *)
(*   2: value is None                                                      *)
(*   3: value is not None and value >= arg                                 *)
(*   4: returns the rank itself (an int, truthy iff non-zero; None->None): *)
(*      "test" means truthiness of the result                              *)
TestFn(f, v, arg) == CASE f = 1 -> v # NoneV /\ v % 2 = 0
                       [] f = 2 -> v = NoneV
                       [] f = 3 -> v # NoneV /\ v >= arg
                       [] f = 4 -> v # NoneV /\ v # 0
                       [] OTHER -> FALSE

Attr(q, p) == CASE q.k = "time"  -> p.t
                [] q.k = "meas"  -> p.m
                [] q.k = "tag"   -> IF q.key \in DOMAIN p.tg THEN p.tg[q.key] ELSE Missing
                [] q.k = "field" -> IF q.key \in DOMAIN p.fd THEN p.fd[q.key] ELSE Missing

Holds(q, v) ==
  CASE q.op = "eq" -> v = q.v
    [] q.op = "ne" -> v # q.v
    [] q.op = "lt" -> IsVal(v) /\ IsVal(q.v) /\ v < q.v
    [] q.op = "le" -> IsVal(v) /\ IsVal(q.v) /\ v <= q.v
    [] q.op = "gt" -> IsVal(v) /\ IsVal(q.v) /\ v > q.v
    [] q.op = "ge" -> IsVal(v) /\ IsVal(q.v) /\ v >= q.v
    [] q.op = "exists"  -> TRUE
    [] q.op = "matches" -> IsVal(v) /\ v \in ReMatch(q.v)
    [] q.op = "search"  -> IsVal(v) /\ v \in ReSearch(q.v)
    [] q.op = "test"    -> TestFn(q.tf, v, q.v)
    [] OTHER -> FALSE

EvalAtom(q, p) ==
  IF q.op = "noop" THEN TRUE                     \* true on every point, whatever class built it
  ELSE LET raw == Attr(q, p) IN
       IF raw = Missing THEN FALSE                \* missing key: false, not an error
       ELSE IF q.key2 # 0 THEN FALSE              \* a second key under a scalar: false, not an error
       ELSE LET v == IF q.mf = 0 THEN raw ELSE MapFn(q.mf, raw) IN
            IF v = Undef THEN FALSE ELSE Holds(q, v)

RECURSIVE Eval(_, _)
Eval(q, p) ==
  CASE q.k = "not" -> ~ Eval(q.a, p)
    [] q.k = "and" -> Eval(q.a, p) /\ Eval(q.b, p)
    [] q.k = "or"  -> Eval(q.a, p) \/ Eval(q.b, p)
    [] OTHER -> EvalAtom(q, p)

(* Positions (1-based) of a sequence of points selected by q, optionally   *)
(* restricted to measurement m (NoneV = no filter).  Opaque queries carry  *)
(* their own truth vector over the current positions.                      *)
RECURSIVE EvalAt(_, _, _)
EvalAt(q, s, i) ==
  CASE q.k = "opaque" -> q.vec[i] = 1
    [] q.k = "not" -> ~ EvalAt(q.a, s, i)
    [] q.k = "and" -> EvalAt(q.a, s, i) /\ EvalAt(q.b, s, i)
    [] q.k = "or"  -> EvalAt(q.a, s, i) \/ EvalAt(q.b, s, i)
    [] OTHER -> EvalAtom(q, s[i])

InMeas(p, m) == m = NoneV \/ p.m = m

Sel(s, q, m) == {i \in 1..Len(s) : InMeas(s[i], m) /\ EvalAt(q, s, i)}

(***************************************************************************)
(* Atom constructors (used by the bounded instances).                      *)
(***************************************************************************)
Atom(k, key, op, v) == [k |-> k, key |-> key, key2 |-> 0, mf |-> 0, op |-> op, v |-> v, tf |-> 0]
AtomM(k, key, mf, op, v) == [k |-> k, key |-> key, key2 |-> 0, mf |-> mf, op |-> op, v |-> v, tf |-> 0]
AtomT(k, key, tf, arg) == [k |-> k, key |-> key, key2 |-> 0, mf |-> 0, op |-> "test", v |-> arg, tf |-> tf]
Atom2(k, key, key2, op, v) == [k |-> k, key |-> key, key2 |-> key2, mf |-> 0, op |-> op, v |-> v, tf |-> 0]
Not(a)    == [k |-> "not", a |-> a]
And(a, b) == [k |-> "and", a |-> a, b |-> b]
Or(a, b)  == [k |-> "or",  a |-> a, b |-> b]

IsAtom(q) == q.k \in {"time", "meas", "tag", "field"}

(***************************************************************************)
(* Equality of query objects (C17).  The DSL gives queries a structural    *)
(* identity; what the property requires of ANY such identity is soundness: *)
(*   q1 == q2  =>  SemEq(q1, q2) on every point, and hash(q1) = hash(q2);  *)
(*   a & b == b & a,  a | b == b | a  (for hashable operands);             *)
(*   a query with a map function in its path equals nothing.               *)
(* `MustEq` is the least relation the property demands, `SemEq` the        *)
(* greatest it allows.                                                     *)
(***************************************************************************)
RECURSIVE HasMap(_)
HasMap(q) == CASE q.k = "not" -> HasMap(q.a)
               [] q.k \in {"and", "or"} -> HasMap(q.a) \/ HasMap(q.b)
               [] OTHER -> q.mf # 0

SemEq(q1, q2, U) == \A p \in U : Eval(q1, p) = Eval(q2, p)

(* commutation variants of a query: swap operands at the root              *)
Swapped(q) == IF q.k \in {"and", "or"} THEN [q EXCEPT !.a = q.b, !.b = q.a] ELSE q
=============================================================================
