----------------------------- MODULE MC_Query ------------------------------
(***************************************************************************)
(* Bounded instances of module Query for C09 and C17.                      *)
(*                                                                         *)
(*  Mode "export"   one TLC state per expression of the enumerated         *)
(*                  language; prints the expression (as a JSON AST) with   *)
(*                  the set of universe points on which Eval is true.      *)
(*                  harness/c09.py builds each expression with the real    *)
(*                  DSL, calls it on every real point and compares.        *)
(*  Mode "validate" expressions recorded by the harness (random, deeper)   *)
(*                  with the truth vector the REAL query objects produced  *)
(*                  are judged against Eval.                               *)
(*  Mode "pairs"    pairs of expressions with the implementation's         *)
(*                  verdicts (q1 == q2, hash(q1) == hash(q2)) are judged   *)
(*                  against the C17 clauses.                               *)
(*                                                                         *)
(* The invariant TypeLaws checks De Morgan / double negation / commutation *)
(* on Eval itself, so the reference interpreter is sanity-checked by TLC   *)
(* before anything is compared with the code.                              *)
(***************************************************************************)
EXTENDS Query, TLC, Json, IOUtils, SequencesExt, FiniteSetsExt

CONSTANTS Mode,        \* "export" | "validate" | "pairs"
          TV1, TV2,    \* value sets for tag key 1 / 2 (may contain NoneV, Missing)
          FV1, FV2,    \* value sets for field key 1 / 2
          MS, TS,      \* measurement ranks, instant ranks
          BasisN,      \* size of the basis for depth-3 expressions
          Part,        \* 0: also print the universe
          LawEvery     \* TypeLaws is evaluated for every LawEvery-th expression

VARIABLE c

NoneC == -1
MissC == -2

(* the cfg cannot hold negative numbers: 98 stands for None, 99 for Missing *)
Dec(S) == {IF x = 98 THEN NoneV ELSE IF x = 99 THEN Missing ELSE x : x \in S}

Universe == {[t |-> t, m |-> m, tg |-> <<a, b>>, fd |-> <<x, y>>] :
               t \in TS, m \in MS, a \in Dec(TV1), b \in Dec(TV2), x \in Dec(FV1), y \in Dec(FV2)}

USeq == SetToSeq(Universe)

(***************************************************************************)
(* Vocabulary: every operator for every query type.                        *)
(***************************************************************************)
TimeAtoms  == {Atom("time", 0, op, 1) : op \in CmpOps}
              \cup {AtomT("time", 0, 1, 0), AtomT("time", 0, 3, 1),
                    AtomM("time", 0, 1, "eq", 1), AtomM("time", 0, 1, "lt", 2),
                    Atom("time", 0, "noop", 0)}
MeasAtoms  == {Atom("meas", 0, op, 1) : op \in CmpOps}
              \cup {Atom("meas", 0, "matches", 1), Atom("meas", 0, "matches", 2),
                    Atom("meas", 0, "search", 1), Atom("meas", 0, "search", 3), Atom("meas", 0, "matches", 3), AtomT("meas", 0, 1, 0),
                    AtomM("meas", 0, 2, "eq", 0), Atom("meas", 0, "noop", 0)}
KeyAtoms(k) ==
     {Atom(k, 1, op, 1) : op \in CmpOps}
     \cup {Atom(k, 1, "eq", NoneV), Atom(k, 1, "ne", NoneV), Atom(k, 1, "exists", 0)}
     \cup {AtomT(k, 1, 1, 0), AtomT(k, 1, 2, 0), AtomT(k, 1, 4, 0), AtomT(k, 1, 3, 2), AtomT(k, 1, 3, 1)}
     \cup {AtomM(k, 1, 1, "eq", 2), AtomM(k, 1, 2, "eq", 1), AtomM(k, 1, 3, "ne", 0)}
     \cup {Atom2(k, 1, 2, "eq", 1), Atom(k, 1, "noop", 0), AtomM(k, 1, 9, "eq", 1), AtomM(k, 1, 9, "exists", 0),
           Atom(k, 2, "eq", 1), Atom(k, 2, "eq", 2), Atom(k, 2, "exists", 0)}
TagAtoms   == KeyAtoms("tag")
              \cup {Atom("tag", 1, "matches", p) : p \in 1..5}
              \cup {Atom("tag", 1, "search", p) : p \in 1..5}      \* 3 (".*") is the pattern that matches the empty string
FieldAtoms == KeyAtoms("field") \cup {Atom("field", 1, op, 0) : op \in CmpOps}

Atoms == TimeAtoms \cup MeasAtoms \cup TagAtoms \cup FieldAtoms

BasisAll == <<Atom("tag", 1, "eq", 1), Atom("field", 1, "lt", 1), Atom("time", 0, "ge", 1),
              Atom("meas", 0, "eq", 1), Atom("field", 1, "exists", 0), Atom("tag", 1, "matches", 1),
              AtomT("field", 1, 4, 0), AtomM("tag", 1, 2, "eq", 1)>>

(* The language is enumerated through *indices* so that no large constant  *)
(* set has to be built (TLC re-evaluates constants once per worker):       *)
(*   part 1: a, ~a, a & b, a | b              over all atoms               *)
(*   part 2: the same closure applied twice   over the first BasisN basis  *)
(*           atoms (nesting depth 3)                                       *)
AtomSeq == SetToSeq(Atoms)

CloseSeq(S) == LET n == Len(S) IN
   S \o [i \in 1..n |-> Not(S[i])]
     \o [x \in 1..(n * n) |-> And(S[((x - 1) \div n) + 1], S[((x - 1) % n) + 1])]
     \o [x \in 1..(n * n) |-> Or(S[((x - 1) \div n) + 1], S[((x - 1) % n) + 1])]

B1Seq == CloseSeq(SubSeq(BasisAll, 1, BasisN))

PartSeq(p) == IF p = 1 THEN AtomSeq ELSE B1Seq
Kinds == {"atom", "not", "and", "or"}

(* a state is [part, kind, i, j]; j = 0 in a binary node means "left        *)
(* operand chosen, right operand still open" (an inner node of the          *)
(* enumeration tree, nothing is emitted for it)                             *)
Root == [part |-> 0, kind |-> "root", i |-> 0, j |-> 0]
IsLeaf(s) == s.part # 0 /\ (s.kind \in {"atom", "not"} \/ s.j # 0)
ExprOf(s) == LET S == PartSeq(s.part) IN
  CASE s.kind = "atom" -> S[s.i]
    [] s.kind = "not"  -> Not(S[s.i])
    [] s.kind = "and"  -> And(S[s.i], S[s.j])
    [] s.kind = "or"   -> Or(S[s.i], S[s.j])

(***************************************************************************)
Recorded == IF Mode \in {"validate", "pairs"} THEN JsonDeserialize(IOEnv.VERIF_IN) ELSE <<>>

(* validate / pairs: recorded case k is visited through a 16-ary tree of   *)
(* indices so that TLC's workers share the judging                         *)
NRec == CASE Mode = "validate" -> Len(Recorded.cases) [] Mode = "pairs" -> Len(Recorded.pairs) [] OTHER -> 0

Init == IF Mode = "export" THEN c = Root ELSE c = 0

Next ==
  IF Mode = "export" THEN
    \/ /\ c = Root
       /\ \E p \in 1..2, k \in Kinds : \E i \in 1..Len(PartSeq(p)) :
            c' = [part |-> p, kind |-> k, i |-> i, j |-> 0]
    \/ /\ c.part # 0 /\ c.kind \in {"and", "or"} /\ c.j = 0
       /\ \E j \in 1..Len(PartSeq(c.part)) : c' = [c EXCEPT !.j = j]
  ELSE \E d \in 1..16 : 16 * c + d <= NRec /\ c' = 16 * c + d

(* Truth vector of q over the universe, packed 30 points per integer (LSB   *)
(* first) so that the exported line stays short.                           *)
RECURSIVE PackWord(_, _, _, _)
PackWord(q, us, i, hi) ==
  IF i > hi THEN 0 ELSE (IF Eval(q, us[i]) THEN 1 ELSE 0) + 2 * PackWord(q, us, i + 1, hi)
Packed(q, us) == [w \in 1..((Len(us) + 29) \div 30) |->
                    PackWord(q, us, 30 * (w - 1) + 1, IF 30 * w < Len(us) THEN 30 * w ELSE Len(us))]

EmitUniverse == IF Mode = "export" /\ Part = 0 THEN PrintT(<<"UNIV", ToJson(USeq)>>) ELSE TRUE
ASSUME EmitUniverse

Emit ==
  CASE Mode = "export" ->
         IF IsLeaf(c) THEN PrintT(<<"EXPR", ToJson([q |-> ExprOf(c), tv |-> Packed(ExprOf(c), USeq)])>>)
         ELSE TRUE
    [] c = 0 -> TRUE
    [] Mode = "validate" ->
         LET k == Recorded.cases[c]
             us == Recorded.universe
             exp == [i \in 1..Len(us) |-> IF Eval(k.q, us[i]) THEN 1 ELSE 0]
         IN IF k.vec = exp THEN TRUE
            ELSE PrintT(<<"BAD", ToJson([id |-> k.id, expected |-> exp])>>)
    [] Mode = "pairs" ->
         LET k  == Recorded.pairs[c]
             q1 == Recorded.exprs[k.i]
             q2 == Recorded.exprs[k.j]
             us == Recorded.universe
             U  == {us[i] : i \in 1..Len(us)}
             bad == (IF k.eq = 1 /\ ~ SemEq(q1, q2, U) THEN {"equal_but_evaluate_differently"} ELSE {})
               \cup (IF k.eq = 1 /\ k.heq = 0 THEN {"equal_but_hash_differs"} ELSE {})
               \cup (IF k.eq = 1 /\ (HasMap(q1) \/ HasMap(q2)) THEN {"map_query_compares_equal"} ELSE {})
               \cup (IF k.eq = 0 /\ q1 # q2 /\ q2 = Swapped(q1) /\ ~ HasMap(q1)
                     THEN {"commuted_operands_not_equal"} ELSE {})
         IN IF bad = {} THEN TRUE
            ELSE PrintT(<<"BAD", ToJson([i |-> k.i, j |-> k.j, clauses |-> bad])>>)

(* Sanity laws of the reference interpreter itself (export mode).          *)
TypeLaws ==
  (Mode = "export" /\ IsLeaf(c) /\ (c.i + c.j) % LawEvery = 0) =>
    LET q == ExprOf(c) IN
    \A p \in Universe :
      /\ Eval(Not(Not(q)), p) = Eval(q, p)
      /\ Eval(Swapped(q), p) = Eval(q, p)
      /\ (q.k = "and" => Eval(Not(q), p) = Eval(Or(Not(q.a), Not(q.b)), p))
      /\ (q.k = "or"  => Eval(Not(q), p) = Eval(And(Not(q.a), Not(q.b)), p))
=============================================================================
