-------------------------------- MODULE Index --------------------------------
(***************************************************************************)
(* The in-memory index of TinyFlux (tinyflux/index.py) as a data structure *)
(* with its maintenance ALGORITHMS - build, append, remove-and-renumber,   *)
(* reset - and its search procedure, written the way the implementation is *)
(* organised (time-sorted timestamps with a parallel array of storage      *)
(* positions, inverted maps for measurements, tags and fields), so that    *)
(* TLC examines the algorithms rather than a tautology:                    *)
(*                                                                         *)
(*   IxBuild(s)        index of a sequence of points, from scratch         *)
(*   IxAppend(ix, p)   incremental insert of a point that is not earlier   *)
(*                     than the latest indexed instant                     *)
(*   IxRemove(ix, R)   removal of storage positions R, survivors           *)
(*                     renumbered in EVERY array, including the            *)
(*                     time-sorted position array                          *)
(*   IxSearch(ix, q)   positions selected by query q, using Bisect on the  *)
(*                     timestamp array and lookups in the inverted maps,   *)
(*                     and  (\cap, \cup, complement) for compound queries  *)
(*                                                                         *)
(* Module TinyFlux states the invariants                                   *)
(*   IndexIsRebuild    ixValid => ix = IxBuild(store)                      *)
(*   IndexSearchExact  ixValid => IxSearch(ix, q) = Sel(store, q)          *)
(* (property C06, and the index half of C01/C02/C07).                      *)
(*                                                                         *)
(* Positions are 1-based here (TLA+ sequences); the implementation's are   *)
(* 0-based; the harness shifts them.                                       *)
(***************************************************************************)
EXTENDS Query, Bisect, SequencesExt, FiniteSetsExt

EmptyFn == <<>>          \* the function with empty domain

EmptyIx == [n |-> 0, ts |-> <<>>, pos |-> <<>>, meas |-> EmptyFn, tags |-> EmptyFn, fields |-> EmptyFn]

TagKeysOf(p)   == {k \in DOMAIN p.tg : p.tg[k] # Missing}
FieldKeysOf(p) == {k \in DOMAIN p.fd : p.fd[k] # Missing}

(* positions 1..n ordered by (instant, position): a stable sort by time    *)
TimeOrder(s) == SetToSortSeq(1..Len(s), LAMBDA a, b : s[a].t < s[b].t \/ (s[a].t = s[b].t /\ a < b))

IxBuild(s) ==
  LET n   == Len(s)
      ord == TimeOrder(s)
      tkv == UNION {{<<k, s[i].tg[k]>> : k \in TagKeysOf(s[i])} : i \in 1..n}
      fks == UNION {FieldKeysOf(s[j]) : j \in 1..n}
  IN [n      |-> n,
      ts     |-> [k \in 1..n |-> s[ord[k]].t],
      pos    |-> ord,
      meas   |-> [m \in {s[i].m : i \in 1..n} |-> {i \in 1..n : s[i].m = m}],
      tags   |-> [kv \in tkv |-> {i \in 1..n : kv[1] \in TagKeysOf(s[i]) /\ s[i].tg[kv[1]] = kv[2]}],
      fields |-> [k \in fks |-> LET S == SelectSeq([i \in 1..n |-> i], LAMBDA i : k \in FieldKeysOf(s[i]))
                                IN [x \in 1..Len(S) |-> <<S[x], s[S[x]].fd[k]>>]]]

Extend(f, key, i) == [x \in DOMAIN f \cup {key} |-> (IF x \in DOMAIN f THEN f[x] ELSE {}) \cup (IF x = key THEN {i} ELSE {})]

RECURSIVE ExtendAll(_, _, _)
ExtendAll(f, keys, i) == IF keys = {} THEN f
                         ELSE LET k == CHOOSE k \in keys : TRUE IN ExtendAll(Extend(f, k, i), keys \ {k}, i)

(* incremental insert; precondition: ix.n = 0 or p.t >= Last(ix.ts)        *)
IxAppend(ix, p) ==
  LET i == ix.n + 1 IN
  [n      |-> i,
   ts     |-> Append(ix.ts, p.t),
   pos    |-> Append(ix.pos, i),
   meas   |-> Extend(ix.meas, p.m, i),
   tags   |-> ExtendAll(ix.tags, {<<k, p.tg[k]>> : k \in TagKeysOf(p)}, i),
   fields |-> [k \in DOMAIN ix.fields \cup FieldKeysOf(p) |->
                 (IF k \in DOMAIN ix.fields THEN ix.fields[k] ELSE <<>>)
                 \o (IF k \in FieldKeysOf(p) THEN <<<<i, p.fd[k]>>>> ELSE <<>>)]]

(* removal of the storage positions in R; every survivor i moves to        *)
(* New(i) = i - |{r \in R : r < i}|                                        *)
IxRemove(ix, R) ==
  LET New(i)   == i - Cardinality({r \in R : r < i})
      keepK    == SelectSeq([k \in 1..ix.n |-> k], LAMBDA k : ix.pos[k] \notin R)
      liveM    == {m \in DOMAIN ix.meas : ix.meas[m] \ R # {}}
      liveT    == {kv \in DOMAIN ix.tags : ix.tags[kv] \ R # {}}
      Kept(k)  == SelectSeq(ix.fields[k], LAMBDA it : it[1] \notin R)
      liveF    == {k \in DOMAIN ix.fields : Len(Kept(k)) > 0}
  IN [n      |-> ix.n - Cardinality(R),
      ts     |-> [x \in 1..Len(keepK) |-> ix.ts[keepK[x]]],
      pos    |-> [x \in 1..Len(keepK) |-> New(ix.pos[keepK[x]])],
      meas   |-> [m \in liveM |-> {New(i) : i \in ix.meas[m] \ R}],
      tags   |-> [kv \in liveT |-> {New(i) : i \in ix.tags[kv] \ R}],
      fields |-> [k \in liveF |-> [x \in 1..Len(Kept(k)) |-> <<New(Kept(k)[x][1]), Kept(k)[x][2]>>]]]

(***************************************************************************)
(* Search.  HoldsRaw applies the optional map function and then the test   *)
(* to one raw attribute value - what the index does per distinct value.    *)
(***************************************************************************)
HoldsRaw(q, raw) == LET v == IF q.mf = 0 THEN raw ELSE MapFn(q.mf, raw)
                    IN v # Undef /\ Holds(q, v)

All(ix) == 1..ix.n

PosRange(ix, lo, hi) == {ix.pos[k] : k \in lo..hi}

IxSearchTime(ix, q) ==
  IF q.mf = 0 /\ q.op \in CmpOps /\ IsVal(q.v) THEN
    LET ts == ix.ts
        n  == ix.n
        eqS == LET e == FindEq(ts, q.v) IN
               IF e = NoneI THEN {} ELSE PosRange(ix, e + 1, FindLe(ts, q.v) + 1)
    IN CASE q.op = "eq" -> eqS
         [] q.op = "ne" -> All(ix) \ eqS
         [] q.op = "lt" -> LET r == FindLt(ts, q.v) IN IF r = NoneI THEN {} ELSE PosRange(ix, 1, r + 1)
         [] q.op = "le" -> LET r == FindLe(ts, q.v) IN IF r = NoneI THEN {} ELSE PosRange(ix, 1, r + 1)
         [] q.op = "gt" -> LET r == FindGt(ts, q.v) IN IF r = NoneI THEN {} ELSE PosRange(ix, r + 1, n)
         [] q.op = "ge" -> LET r == FindGe(ts, q.v) IN IF r = NoneI THEN {} ELSE PosRange(ix, r + 1, n)
  ELSE {ix.pos[k] : k \in {k \in 1..ix.n : HoldsRaw(q, ix.ts[k])}}

IxSearchAtom(ix, q) ==
  IF q.op = "noop" THEN All(ix)               \* true on every point, whatever class built it
  ELSE CASE q.k = "time"  -> IxSearchTime(ix, q)
         [] q.k = "meas"  -> UNION {ix.meas[m] : m \in {m \in DOMAIN ix.meas : HoldsRaw(q, m)}}
         [] q.k = "tag"   -> IF q.key2 # 0 THEN {}
                             ELSE UNION {ix.tags[kv] : kv \in {kv \in DOMAIN ix.tags : kv[1] = q.key /\ HoldsRaw(q, kv[2])}}
         [] q.k = "field" -> IF q.key2 # 0 \/ q.key \notin DOMAIN ix.fields THEN {}
                             ELSE LET f == ix.fields[q.key] IN
                                  {f[x][1] : x \in {x \in 1..Len(f) : HoldsRaw(q, f[x][2])}}

RECURSIVE IxSearch(_, _)
IxSearch(ix, q) ==
  CASE q.k = "not" -> All(ix) \ IxSearch(ix, q.a)
    [] q.k = "and" -> IxSearch(ix, q.a) \cap IxSearch(ix, q.b)
    [] q.k = "or"  -> IxSearch(ix, q.a) \cup IxSearch(ix, q.b)
    [] OTHER -> IxSearchAtom(ix, q)

(***************************************************************************)
(* Getters answered from the index.                                        *)
(***************************************************************************)
IxInMeas(ix, m) == IF m = NoneV THEN All(ix) ELSE IF m \in DOMAIN ix.meas THEN ix.meas[m] ELSE {}
IxMeasurements(ix) == DOMAIN ix.meas
IxTagKeys(ix, m) == {kv[1] : kv \in {kv \in DOMAIN ix.tags : ix.tags[kv] \cap IxInMeas(ix, m) # {}}}
IxTagValues(ix, k, m) == {kv[2] : kv \in {kv \in DOMAIN ix.tags : kv[1] = k /\ ix.tags[kv] \cap IxInMeas(ix, m) # {}}}
IxFieldKeys(ix, m) == {k \in DOMAIN ix.fields : \E x \in 1..Len(ix.fields[k]) : ix.fields[k][x][1] \in IxInMeas(ix, m)}
IxFieldValues(ix, k, m) ==
  IF k \notin DOMAIN ix.fields THEN <<>>
  ELSE LET S == SelectSeq(ix.fields[k], LAMBDA it : it[1] \in IxInMeas(ix, m)) IN [x \in 1..Len(S) |-> S[x][2]]
(* timestamps in insertion (storage) order                                 *)
IxTimestamps(ix, m) ==
  LET P == SetToSortSeq(IxInMeas(ix, m), <)
      KOf(i) == CHOOSE k \in 1..ix.n : ix.pos[k] = i
  IN [x \in 1..Len(P) |-> ix.ts[KOf(P[x])]]

(* structural well-formedness of an index (holds for every index built by  *)
(* the operators above)                                                    *)
IxWellFormed(ix) ==
  /\ Len(ix.ts) = ix.n /\ Len(ix.pos) = ix.n
  /\ SortedAsc(ix.ts)
  /\ {ix.pos[k] : k \in 1..ix.n} = 1..ix.n
  /\ \A m \in DOMAIN ix.meas : ix.meas[m] # {} /\ ix.meas[m] \subseteq 1..ix.n
  /\ \A kv \in DOMAIN ix.tags : ix.tags[kv] # {} /\ ix.tags[kv] \subseteq 1..ix.n
=============================================================================
