--------------------------- MODULE Trace_TinyFlux ---------------------------
(***************************************************************************)
(* Trace specification: executions recorded from the REAL tinyflux package *)
(* are judged against module TinyFlux.                                     *)
(*                                                                         *)
(* Input (IOEnv.VERIF_IN, JSON):                                           *)
(*   traces: sequence of [id, init, valid0, events]                        *)
(*   event : [a     |-> operation record (PART 4 of TinyFlux),             *)
(*            exc   |-> "" or the exception class name,                    *)
(*            res   |-> returned value in the spec's encoding,             *)
(*            store |-> projected contents after the call,                 *)
(*            valid |-> db.index.valid after the call (0/1),               *)
(*            ix    |-> observations of the real index after the call:     *)
(*                      n, and for a battery of queries the positions      *)
(*                      answered by the live index and by an index freshly *)
(*                      rebuilt from storage (both by the real code)]      *)
(*                                                                         *)
(* One TLC behaviour per trace: state = (tid, l, store, ixValid, err).     *)
(* Each step consumes one event and checks the clauses                     *)
(*   raises     the call raised iff the specification says it must         *)
(*   result     the returned value equals Result(a, store)                 *)
(*   store      the projected contents equal StoreAfter(a, store)          *)
(*   valid      the validity flag is inside the envelope ValidAllowed      *)
(*   index      a valid index answers like one rebuilt from storage (query  *)
(*              matches, keys, values, timestamps) and has the right length *)
(* A failing clause is recorded in `err` (step, clause, what was expected) *)
(* and the trace goes on from the LOGGED state, so that each later call is *)
(* judged relative to the contents the implementation really had and each *)
(* property's own clauses get their verdict (at most MaxPerClause errors   *)
(* per clause and trace are recorded).                                     *)
(* Every trace ends with exactly one VERDICT line: verdicts are total.     *)
(***************************************************************************)
EXTENDS TinyFlux, Json, IOUtils

VARIABLES tid, l, err

Input  == JsonDeserialize(IOEnv.VERIF_IN)
Traces == Input.traces

tvars == <<tid, l, store, ixValid, ix, err>>

NoErr == <<>>
MaxPerClause == 2       \* errors recorded per clause name and trace

TraceInit ==
  /\ tid \in 1..Len(Traces)
  /\ l = 1
  /\ store = Traces[tid].init
  /\ ixValid = (Traces[tid].valid0 = 1)
  /\ ix = EmptyIx                     \* the index structure is not tracked here, only observed
  /\ err = NoErr

Ev == Traces[tid].events[l]

Raised(ev) == ev.exc # ""

(* Access modes of a CSV database (C15): "r" - reads only; "a" - inserts    *)
(* only; "r+" / "w+" - everything.  A forbidden operation must raise and    *)
(* change nothing.                                                          *)
Mode == IF "mode" \in DOMAIN Traces[tid] THEN Traces[tid].mode ELSE "r+"
WriteOps == {"insert", "insert_multiple", "remove", "drop_measurement", "remove_all", "update", "update_all"}
Forbidden(a) ==
  CASE Mode = "r" -> a.op \in WriteOps \/ (a.op = "bad" /\ a.entry \notin {"ctor", "setter"})
    [] Mode = "a" -> a.op \notin {"insert", "insert_multiple", "reopen", "repr"} /\      \* (repr() never touches storage)
                     ~ (a.op = "bad" /\ a.entry \in {"ctor", "setter", "insert_meas", "insert_meas_stored", "insert_meas_pos", "handle_insert", "handle_insert_multiple"})
    [] OTHER -> FALSE

(* operations whose failure the specification decides; "bad" operations    *)
(* (wrongly typed arguments, C14 / C11) must raise                         *)
(* Updates recorded from the repository's own test suite carry arbitrary    *)
(* callables; they are judged on their FRAME: unselected points untouched, *)
(* length and order kept, return value = number of selected points that    *)
(* differ afterwards; whether such a call raises is not decided here, but  *)
(* a raised call must leave the contents alone.                            *)
IsOpaqueUpd(a) == a.op = "update_opaque"
FrameOK(a, ev) ==
  /\ Len(ev.store) = Len(store)
  /\ \A i \in 1..Len(store) : i \notin Sel(store, a.q, a.m) => ev.store[i] = store[i]
ChangedCount(a, ev) == Cardinality({i \in Sel(store, a.q, a.m) : ev.store[i] # store[i]})

RaisesOK(a, ev) ==
  CASE IsOpaqueUpd(a) -> TRUE
    [] Forbidden(a) -> Raised(ev)
    [] a.op = "bad" -> /\ Raised(ev) = MustRaise(a, store)
                       /\ (Raised(ev) => ev.exc \in {"ValueError", "TypeError"})
    [] OTHER -> Raised(ev) = MustRaise(a, store)

(* reopening a database whose access mode is "w+" truncates the file: that  *)
(* is Python's meaning of the mode, applied each time the file is opened    *)
ExpStore(a) == IF Forbidden(a) THEN store
               ELSE IF a.op = "reopen" /\ Mode = "w+" THEN <<>>
               ELSE StoreAfter(a, store)
(* events of traces whose contents cannot be projected at every step       *)
(* (flush_on_insert = False: the file may lag) carry nostore = 1; the      *)
(* specification's own contents are carried forward and compared with the  *)
(* file at the next close                                                  *)
NoStore(ev) == "nostore" \in DOMAIN ev /\ ev.nostore = 1

IndexOK(ev) ==
  ev.valid = 1 =>
    /\ ev.ix.n = Len(ev.store)
    /\ ev.ix.live = ev.ix.fresh

(***************************************************************************)
(* I/O-level observations (recorded by harness/ioproxy.py for CSV          *)
(* storage): when an event carries a field `io`, the storage properties    *)
(* are judged on it as well.                                               *)
(*   io.snaps     the distinct decodings of the database file's            *)
(*                kernel-visible bytes at every I/O boundary of the call   *)
(*                (what a crash at that boundary leaves behind)            *)
(*   io.file      decoding of the file after the call returned             *)
(*   io.reopened  contents seen by a fresh read-only TinyFlux on the file  *)
(*   io.same      1 iff the file bytes after the call equal those before   *)
(*   io.tmp       files in the temp / database directory that exist after  *)
(*                the call and did not exist before it                     *)
(*   io.calls     the I/O calls made on the primary file, each with        *)
(*                [call, atend, prefix]: the call kind, whether a write /  *)
(*                truncate happened at (or beyond) the old end of file,    *)
(*                whether the old bytes are still a prefix of the file     *)
(***************************************************************************)
HasIO(ev) == "io" \in DOMAIN ev

StoredPrefixes(s, ps, m) == {InsertManyStore(s, SubSeq(ps, 1, k), m) : k \in 0..Len(ps)}

(* contents a crash (C12) or a failed I/O call (C13) may leave behind       *)
CrashAllowed(a, s) ==
  {s, StoreAfter(a, s)} \cup (IF a.op = "insert_multiple" THEN StoredPrefixes(s, a.ps, a.m) ELSE {})
  \cup (IF a.op = "reopen" /\ Mode = "w+" THEN {<<>>} ELSE {})

AppendCalls == {"seek", "write", "flush", "fsync", "truncate", "tell"}
MaxCallsPerPoint == 8

NoWriteOps == ReadOps \cup {"reindex", "bad"}

IOFailing(a, ev) ==
  IF ~ HasIO(ev) THEN {} ELSE
  LET io == ev.io
      new == IF Forbidden(a) \/ (Raised(ev) /\ a.op # "insert_multiple") THEN store ELSE ExpStore(a)
      nochange == a.op \in NoWriteOps \/ new = store
      badSnaps == {i \in 1..Len(io.snaps) : io.snaps[i] \notin CrashAllowed(a, store)}
  IN   (IF badSnaps # {} THEN {[clause |-> "crash", expected |-> SetToSeq(badSnaps)]} ELSE {})
  \cup (IF "file" \in DOMAIN io /\ (io.file # new \/ io.reopened # new) THEN {[clause |-> "file", expected |-> new]} ELSE {})
  \cup (IF a.op \in {"insert", "insert_multiple"} /\
           \E i \in 1..Len(io.calls) : \/ io.calls[i].call \notin AppendCalls
                                        \/ io.calls[i].prefix = 0
                                        \/ (io.calls[i].call \in {"write", "truncate"} /\ io.calls[i].atend = 0)
        THEN {[clause |-> "append", expected |-> 0]} ELSE {})
  \cup (IF a.op \in {"insert", "insert_multiple"} /\ ~ Raised(ev) /\
           Len(io.calls) > MaxCallsPerPoint * (IF a.op = "insert" THEN 1 ELSE Len(a.ps) + 1)
        THEN {[clause |-> "cost", expected |-> MaxCallsPerPoint]} ELSE {})
  \cup (IF nochange /\ io.same = 0 THEN {[clause |-> "unchanged", expected |-> 1]} ELSE {})
  \cup (IF io.tmp # 0 THEN {[clause |-> "tmp", expected |-> 0]} ELSE {})

(***************************************************************************)
(* Fault injection (C13): an event that carries a field `fault` is a call  *)
(* during which one I/O call was made to fail with an OSError.             *)
(*   oserr       1 iff the caller saw an OSError                           *)
(*   scan        contents of the live object's own storage afterwards      *)
(*               (plain iteration, no index), scan_raised = 1 if it raised *)
(*   reads       read operations made afterwards on the live object, each  *)
(*               either raised or must equal the answer over `scan`        *)
(*   valid, ix   the index flag and observations right after the fault    *)
(*   rm          a later remove on the same object: result and the storage *)
(*               it left (a rewrite after a failed one must still be right)*)
(*   ins_ok      whether one more insert (of point `extra`) succeeded      *)
(*   final       decoding of the file after close                          *)
(***************************************************************************)
HasFault(ev) == "fault" \in DOMAIN ev

FaultFailing(a, ev) ==
  IF ~ HasFault(ev) \/ ev.fault.injected = 0 THEN {} ELSE
  LET f  == ev.fault
      ok == CrashAllowed(a, store)
      rmOK == f.rm.exc = "" /\ f.rm.scan_raised = 0
      (* contents the later remove may leave: it ran on some allowed contents, or it failed *)
      afterRm == IF f.rm.exc = "" THEN {StoreAfter(f.rm.a, s) : s \in ok} ELSE ok \cup {StoreAfter(f.rm.a, s) : s \in ok}
      finals == IF f.ins_ok = 1 THEN {Append(s, f.extra) : s \in afterRm} ELSE afterRm \cup {Append(s, f.extra) : s \in afterRm}
  IN   (IF f.oserr = 0 THEN {[clause |-> "fault_reported", expected |-> 1]} ELSE {})
  \cup (IF f.scan_raised = 0 /\ f.scan \notin ok THEN {[clause |-> "fault_storage", expected |-> SetToSeq(ok)]} ELSE {})
  \cup (IF f.scan_raised = 0 /\ f.scan \in ok /\
           \E i \in 1..Len(f.reads) : f.reads[i].exc = "" /\ f.reads[i].res # Result(f.reads[i].a, f.scan)
        THEN {[clause |-> "fault_reads", expected |-> [i \in 1..Len(f.reads) |-> Result(f.reads[i].a, f.scan)]]} ELSE {})
  (* the object can no longer iterate over its storage (e.g. its handle is closed): a read that still answers *)
  (* must answer over what the file holds                                                                   *)
  \cup (IF f.scan_raised = 1 /\ f.file_now \in ok /\
           \E i \in 1..Len(f.reads) : f.reads[i].exc = "" /\ f.reads[i].res # Result(f.reads[i].a, f.file_now)
        THEN {[clause |-> "fault_reads", expected |-> [i \in 1..Len(f.reads) |-> Result(f.reads[i].a, f.file_now)]]} ELSE {})
  \cup (IF f.scan_raised = 0 /\ f.scan \in ok /\ f.valid = 1 /\ (f.ix.n # Len(f.scan) \/ f.ix.live # f.ix.fresh)
        THEN {[clause |-> "fault_index", expected |-> f.ix.fresh]} ELSE {})
  \cup (IF f.scan_raised = 0 /\ f.scan \in ok /\ rmOK /\
           (f.rm.res # Result(f.rm.a, f.scan) \/ f.rm.scan # StoreAfter(f.rm.a, f.scan))
        THEN {[clause |-> "fault_later_write", expected |-> StoreAfter(f.rm.a, f.scan)]} ELSE {})
  \cup (IF f.final \notin finals THEN {[clause |-> "fault_file", expected |-> SetToSeq(finals)]} ELSE {})
  (* C15: whether the call returned or raised, no temporary file stays behind (the recorder does not count the  *)
  (* case in which the failed call was the removal of that file)                                                *)
  \cup (IF "tmp" \in DOMAIN f /\ f.tmp # 0 THEN {[clause |-> "fault_tmp", expected |-> 0]} ELSE {})

Failing(a, ev) ==
  IF HasFault(ev) THEN FaultFailing(a, ev) ELSE
     (IF ~ RaisesOK(a, ev) THEN {[clause |-> "raises", expected |-> Bool01(MustRaise(a, store))]} ELSE {})
  \cup (IF IsOpaqueUpd(a)
        THEN (IF ~ Raised(ev) /\ Len(ev.store) = Len(store) /\ ev.res # ChangedCount(a, ev)
              THEN {[clause |-> "result", expected |-> ChangedCount(a, ev)]} ELSE {})
        ELSE (IF RaisesOK(a, ev) /\ ~ Raised(ev) /\ ev.res # Result(a, store) /\ ~ (a.op = "repr" /\ ev.res = NoneV)
              THEN {[clause |-> "result", expected |-> Result(a, store)]} ELSE {}))
  \cup (IF IsOpaqueUpd(a)
        THEN (IF (Raised(ev) /\ ev.store # store) \/ (~ Raised(ev) /\ ~ FrameOK(a, ev))
              THEN {[clause |-> "store", expected |-> store]} ELSE {})
        ELSE (IF ~ NoStore(ev) /\ ev.store # ExpStore(a) THEN {[clause |-> "store", expected |-> ExpStore(a)]} ELSE {}))
  \cup (IF ~ ValidAllowed(a, store, ixValid, ev.valid = 1, Raised(ev)) THEN {[clause |-> "valid", expected |-> 1]} ELSE {})
  \cup (IF ~ IndexOK(ev) THEN {[clause |-> "index", expected |-> ev.ix.fresh]} ELSE {})
  \cup (IF ~ NowOK(a, store) THEN {[clause |-> "now", expected |-> NowBase]} ELSE {})
  \cup IOFailing(a, ev)

(* a logged store the specification cannot adopt (it contains a value the  *)
(* harness could not name) ends the trace                                  *)
Adoptable(s) == \A i \in 1..Len(s) : s[i].t >= 0

TraceNext ==
  /\ l <= Len(Traces[tid].events)
  /\ (l > 1 => Adoptable(store))
  /\ LET ev == Ev
         a  == ev.a
         Seen(c) == Cardinality({i \in 1..Len(err) : err[i].clause = c})
         F  == SetToSeq({f \in Failing(a, ev) : Seen(f.clause) < MaxPerClause})
     IN /\ err' = err \o [i \in 1..Len(F) |-> [step |-> l, clause |-> F[i].clause, expected |-> F[i].expected]]
        /\ store' = (IF NoStore(ev) THEN ExpStore(a) ELSE ev.store)
        /\ ixValid' = (ev.valid = 1) /\ l' = l + 1
  /\ UNCHANGED <<tid, ix>>

Done == l > Len(Traces[tid].events) \/ (l > 1 /\ ~ Adoptable(store))

Verdict ==
  Done => PrintT(<<"VERDICT", ToJson([id |-> Traces[tid].id, ok |-> Bool01(err = NoErr), steps |-> l - 1, errs |-> err])>>)

(* invariants of the specification evaluated on every state of every trace *)
TraceTyped == Adoptable(store) => WellTyped(store)
=============================================================================
