--------------------------- MODULE Trace_TinyFlux ---------------------------
(***************************************************************************)
(* Trace specification: executions recorded from the REAL tinyflux package *)
(* are judged against module TinyFlux.                                     *)
(*                                                                         *)
(* Input (IOEnv.VERIF_IN, JSON):                                           *)
(*   traces: sequence of [id, init, valid0, events]                        *)
(*   event : [a     |-> operation record (PART 4 of TinyFlux),             *)
(*            exc   |-> "" or the exception class name,                    *)
(*            res   |-> returned value in the spec's encoding,             *)
(*            store |-> projected contents after the call,                 *)
(*            valid |-> db.index.valid after the call (0/1),               *)
(*            ix    |-> observations of the real index after the call:     *)
(*                      n, and for a battery of queries the positions      *)
(*                      answered by the live index and by an index freshly *)
(*                      rebuilt from storage (both by the real code)]      *)
(*                                                                         *)
(* One TLC behaviour per trace: state = (tid, l, store, ixValid, err).     *)
(* Each step consumes one event and checks, in this order, the clauses     *)
(*   raises     the call raised iff the specification says it must         *)
(*   result     the returned value equals Result(a, store)                 *)
(*   store      the projected contents equal StoreAfter(a, store)          *)
(*   valid      the validity flag is inside the envelope ValidAllowed      *)
(*   index      a valid index answers like one rebuilt from storage (query  *)
(*              matches, keys, values, timestamps) and has the right length *)
(* The first failing clause is recorded in `err` (with what was expected)  *)
(* and the trace stops there; every trace ends with exactly one VERDICT    *)
(* line, so verdicts are total and name the failing clause.                *)
(***************************************************************************)
EXTENDS TinyFlux, Json, IOUtils

VARIABLES tid, l, err

Input  == JsonDeserialize(IOEnv.VERIF_IN)
Traces == Input.traces

tvars == <<tid, l, store, ixValid, ix, err>>

NoErr == <<>>

TraceInit ==
  /\ tid \in 1..Len(Traces)
  /\ l = 1
  /\ store = Traces[tid].init
  /\ ixValid = (Traces[tid].valid0 = 1)
  /\ ix = EmptyIx                     \* the index structure is not tracked here, only observed
  /\ err = NoErr

Ev == Traces[tid].events[l]

Raised(ev) == ev.exc # ""

(* operations whose failure the specification decides; "bad" operations    *)
(* (wrongly typed arguments, C14 / C11) must raise                         *)
RaisesOK(a, ev) ==
  CASE a.op = "bad" -> Raised(ev)
    [] OTHER -> Raised(ev) = MustRaise(a, store)

ExpStore(a) == IF a.op = "bad" THEN store ELSE StoreAfter(a, store)

IndexOK(ev) ==
  ev.valid = 1 =>
    /\ ev.ix.n = Len(ev.store)
    /\ ev.ix.live = ev.ix.fresh

FirstFailing(a, ev) ==
  CASE ~ RaisesOK(a, ev) ->
         [clause |-> "raises", expected |-> IF a.op = "bad" THEN 1 ELSE Bool01(MustRaise(a, store))]
    [] ~ Raised(ev) /\ a.op # "bad" /\ ev.res # Result(a, store) ->
         [clause |-> "result", expected |-> Result(a, store)]
    [] ev.store # ExpStore(a) ->
         [clause |-> "store", expected |-> ExpStore(a)]
    [] ~ ValidAllowed(a, store, ixValid, ev.valid = 1, Raised(ev)) ->
         [clause |-> "valid", expected |-> 1]
    [] ~ IndexOK(ev) ->
         [clause |-> "index", expected |-> ev.ix.fresh]
    [] OTHER -> NoErr

TraceNext ==
  /\ err = NoErr
  /\ l <= Len(Traces[tid].events)
  /\ LET ev == Ev
         a  == ev.a
         f  == FirstFailing(a, ev)
     IN IF f = NoErr
        THEN /\ store' = ev.store /\ ixValid' = (ev.valid = 1) /\ l' = l + 1 /\ err' = NoErr
        ELSE /\ err' = [step |-> l, clause |-> f.clause, expected |-> f.expected]
             /\ UNCHANGED <<store, ixValid, l>>
  /\ UNCHANGED <<tid, ix>>

Done == err # NoErr \/ l > Len(Traces[tid].events)

Verdict ==
  Done => PrintT(<<"VERDICT", ToJson([id |-> Traces[tid].id, ok |-> Bool01(err = NoErr), steps |-> l - 1,
                                      err |-> IF err = NoErr THEN [step |-> 0, clause |-> "", expected |-> 0] ELSE err])>>)

(* invariants of the specification evaluated on every state of every trace *)
TraceTyped == WellTyped(store)
=============================================================================
