"""C05 - every valid Point survives serialisation to CSV and back unchanged.

spec (Codec.tla)  the row layout at character level: prefixes, prefix sniffing by
                  position, the "_none" sentinel.  TLC checks De(Ser(p)) = p over a
                  universe of points built from the reserved words and their
                  fragments in every string slot (RoundTripExceptSentinel), and that
                  the strict round trip FAILS exactly inside SentinelCollision.
spec -> code      every universe point (both prefix styles) is written through the
                  real CSVStorage, the database is closed and reopened, and the
                  point read back must be equal, tags still tags, fields still
                  fields, -0.0 / inf / subnormals preserved; distinct points must
                  decode to distinct points.
code -> spec      the rows the real serializer wrote are read back raw and judged by
                  TLC: row = Ser(p) and De(row) = p.
breadth           the same round trip on seeded random points: arbitrary Unicode
                  (delimiters, quotes, CR/LF, NUL, astral), random float64 bit
                  patterns, ints to +-2^70, microsecond instants 1700-2240, four
                  csv dialects.  (Sampled - a TLA+ model cannot enumerate float64.)
"""
import csv
import json
import math
import os
import random
import shutil
import struct
from datetime import datetime, timedelta, timezone

import common
import tlc

NONE_TOK = ["\\None"]
DIALECTS = [{}, {"delimiter": ";"}, {"quoting": csv.QUOTE_ALL}, {"quotechar": "'"}]
NUMSETS = [[0, -0.0, 5e-324], [float("inf"), float("-inf"), 1.7976931348623157e308], [0, -1, 2 ** 53],
           [1.5, -2.25, 1e-300], [3, 0.1, -0.0],
           # ints around the powers of two where float64 stops representing every integer (2**53) and the next binades
           [2 ** 53 + 1, -(2 ** 53) - 1, 2 ** 54 - 1], [2 ** 54 + 1, 2 ** 63 - 1, -(2 ** 64) - 1], [2 ** 53 - 1, 2 ** 55 + 3, 2 ** 53 + 2]]


def s_(chars):
    return "".join(chars)


def same_value(a, b):
    """equality as C05 means it: same number including the sign of zero; int vs equal float is fine"""
    if a is None or b is None:
        return a is b
    if isinstance(a, str) or isinstance(b, str):
        return type(a) is type(b) and a == b
    if isinstance(a, bool) or isinstance(b, bool):
        return False
    if a != b:
        return False
    if a == 0:
        return math.copysign(1, a) == math.copysign(1, b)
    return True


def same_point(p, q):
    if p.time != q.time or q.time.tzinfo is None or q.time.utcoffset() != timedelta(0):
        return "time %r -> %r" % (p.time, q.time)
    if p.measurement != q.measurement or not isinstance(q.measurement, str):
        return "measurement %r -> %r" % (p.measurement, q.measurement)
    if list(p.tags.keys()) != list(q.tags.keys()) and set(p.tags) != set(q.tags):
        return "tag keys %r -> %r" % (list(p.tags), list(q.tags))
    for k in p.tags:
        if k not in q.tags or not same_value(p.tags[k], q.tags[k]):
            return "tag %r: %r -> %r" % (k, p.tags[k], q.tags.get(k, "<missing>"))
    if set(p.fields) != set(q.fields):
        return "field keys %r -> %r" % (list(p.fields), list(q.fields))
    for k in p.fields:
        if not same_value(p.fields[k], q.fields[k]):
            return "field %r: %r -> %r" % (k, p.fields[k], q.fields[k])
    return None


def live_roundtrip(tf, scratch, items, dialect, name):
    """Write the points, make the database rewrite its file (an effective remove and an effective
    update of sacrificial points), and read the others back through the SAME open instance."""
    path = os.path.join(scratch, name + ".csv")
    db = tf.TinyFlux(path, auto_index=(len(items) % 2 == 0), **dialect)
    t0 = datetime(1650, 1, 1, tzinfo=timezone.utc)
    db.insert(tf.Point(time=t0, measurement="sacrifice-1", fields={"x": 1}))
    for p, compact in items:
        db.insert(p, compact_key_prefixes=compact)
    db.insert(tf.Point(time=t0 + timedelta(days=1), measurement="sacrifice-2", fields={"x": 2}))
    n1 = db.remove(tf.MeasurementQuery() == "sacrifice-1")
    n2 = db.update(tf.MeasurementQuery() == "sacrifice-2", fields={"x": 3})
    got = [q for q in db.all(sorted=False) if q.measurement != "sacrifice-2" or q.time != t0 + timedelta(days=1)]
    db.close()
    os.unlink(path)
    return got, (n1, n2)


def unflushed_roundtrip(tf, scratch, items, dialect, name):
    """Write with flush_on_insert=False and read back through the SAME open instance, then once more after close."""
    path = os.path.join(scratch, name + ".csv")
    db = tf.TinyFlux(path, auto_index=(len(items) % 2 == 1), flush_on_insert=False, **dialect)
    for p, compact in items:
        db.insert(p, compact_key_prefixes=compact)
    got = db.all(sorted=False)
    db.close()
    db2 = tf.TinyFlux(path, auto_index=False, **dialect)
    try:
        again = db2.all(sorted=False)
    finally:
        db2.close()
    os.unlink(path)
    if len(again) != len(got):
        return again
    return got


def roundtrip(tf, scratch, items, dialect, name):
    """items: list of (Point, compact flag).  Returns (decoded points or exception text, raw rows)."""
    path = os.path.join(scratch, name + ".csv")
    db = tf.TinyFlux(path, auto_index=False, **dialect)
    for p, compact in items:
        db.insert(p, compact_key_prefixes=compact)
    db.close()
    with open(path, "r", newline="") as fh:
        rows = list(csv.reader(fh, **dialect))
    db2 = tf.TinyFlux(path, auto_index=False, **dialect)
    try:
        got = db2.all(sorted=False)
    finally:
        db2.close()
    # the same file read attribute-wise through select(), served from the index
    sel = None
    tkeys = sorted({k for p, _ in items for k in p.tags if k})[:12]
    fkeys = sorted({k for p, _ in items for k in p.fields if k})[:12]
    if (tkeys or fkeys) and len(items) <= 20000:
        db3 = tf.TinyFlux(path, auto_index=True, **dialect)
        try:
            cols = ["tags." + k for k in tkeys] + ["fields." + k for k in fkeys] + ["measurement"]
            sel = (tkeys, fkeys, db3.select(tuple(cols), tf.TimeQuery().noop()))
        finally:
            db3.close()
    os.unlink(path)
    _LAST["select"] = sel
    return got, rows


_LAST = {}


def check_select(rep, orig, what, dialect):
    """select() of every tag / field column must give back the inserted values (None only for None / absent)"""
    sel = _LAST.get("select")
    if not sel:
        return 0
    tkeys, fkeys, rows = sel
    if len(rows) != len(orig):
        rep.violation("select() returned %d rows for %d points (%s, dialect %r)" % (len(rows), len(orig), what, dialect), {"dialect": str(dialect)}, tags={"select", "count"})
        return 0
    n = 0
    for (p, c), row in zip(orig, rows):
        if classify(p):
            continue
        exp = [p.tags.get(k) for k in tkeys] + [p.fields.get(k) for k in fkeys] + [p.measurement]
        n += 1
        for name, e, g in zip(["tags." + k for k in tkeys] + ["fields." + k for k in fkeys] + ["measurement"], exp, row):
            if not same_value(e, g):
                rep.violation("select(%r) returns %r for a point holding %r (%s, dialect %r): %r" % (name, g, e, what, dialect, p),
                              {"dialect": str(dialect), "point": repr(p), "column": name}, tags={"select"} | _text_tags(p))
                break
    return n


def copy_point(tf, p):
    return tf.Point(time=p.time, measurement=p.measurement, tags=dict(p.tags), fields=dict(p.fields))


def classify(p):
    """signature atoms for known findings"""
    tags = set()
    if p.measurement == "":
        tags.add("measurement_empty")
    if "_none" in p.tags.values():
        tags.add("tag_value_is_sentinel_text")
    if any(isinstance(v, int) and not isinstance(v, bool) and abs(v) > 2 ** 53 for v in p.fields.values()):
        tags.add("int_beyond_2^53")
    return tags


def rand_text(rng):
    pools = [",;\"'\r\n\t \x00", "\x0b\x0c\x1c\x1d\x1e\x85\u2028\u2029", "_tfneoagild", "abcXYZ019", "éüß中\U0001F600́", "_none", "_tag_", "_field_", "t_", "f_"]
    n = rng.choice([0, 1, 1, 2, 3, 5, 8])
    out = []
    for _ in range(n):
        pool = rng.choice(pools)
        out.append(pool if len(pool) > 1 and pool[0] == "_" and rng.random() < 0.5 else rng.choice(pool))
    return "".join(out)


def rand_number(rng):
    x = rng.random()
    if x < 0.4:
        while True:
            f = struct.unpack("<d", struct.pack("<Q", rng.getrandbits(64)))[0]
            if f == f:
                return f
    if x < 0.6:
        return rng.choice([0, -0.0, 0.0, float("inf"), float("-inf"), 5e-324, -5e-324, 2.2250738585072014e-308, 1.7976931348623157e308])
    if x < 0.74:
        return rng.randint(-2 ** 53, 2 ** 53)
    if x < 0.8:         # a few units around a power of two between 2**50 and 2**70: where "is this int exactly a float" changes its answer
        return rng.choice([1, -1]) * (2 ** rng.randint(50, 70) + rng.randint(-3, 3))
    if x < 0.9:
        return rng.randint(-2 ** 70, 2 ** 70)
    return None


# the ends of the supported range (years 1700 - 2240, the domain the properties are stated over; outside it the index's
# float seconds cannot be turned back into datetimes near year 1 / 9999 - not demanded here)
EDGE_TIMES = [datetime(1700, 1, 1, tzinfo=timezone.utc), datetime(1700, 1, 1, 0, 0, 0, 1, tzinfo=timezone.utc),
              datetime(1969, 12, 31, 23, 59, 59, 999999, tzinfo=timezone.utc), datetime(1970, 1, 1, tzinfo=timezone.utc),
              datetime(2239, 12, 31, 23, 59, 59, 999999, tzinfo=timezone.utc)]


def rand_time(rng):
    if rng.random() < 0.06:
        return rng.choice(EDGE_TIMES)
    lo = datetime(1700, 1, 1, tzinfo=timezone.utc)
    span = (datetime(2240, 1, 1, tzinfo=timezone.utc) - lo)
    us = rng.randrange(int(span.total_seconds())) * 1000000 + rng.randrange(1000000)
    return lo + timedelta(microseconds=us)


def main():
    rep = common.Report("C05", "model_checking")
    tf = common.use_repo()
    thorough = rep.tier == "thorough"
    consts = {"Small": not thorough, "Mode": "export"}
    r = tlc.run_tlc("MC_Codec", tlc.cfg_text(constants=consts, invariants=["RoundTripOK", "Emit"]), workers=1, timeout=1800)
    tlc.require_clean(r, "MC_Codec export")
    if r.violated:
        raise tlc.MachineryError("the format model violates %s outside the sentinel region\n%s" % (r.violated, r.tail(30)))
    rs = tlc.run_tlc("MC_Codec", tlc.cfg_text(constants={"Small": True, "Mode": "export"}, invariants=["RoundTripStrict"]), workers=1, timeout=600)
    sentinel_is_counterexample = "RoundTripStrict" in rs.violated
    univ = r.lines("POINT")
    rng = random.Random(rep.seed * 7 + 5)
    scratch = tlc.mkscratch("c05-")
    n_checked = 0
    samples = []
    try:
        # ---- spec -> code: the exported universe -------------------------------------------------
        base_t = datetime(2022, 2, 2, 2, 2, 2, 123456, tzinfo=timezone.utc)
        items, meta = [], []
        for i, u in enumerate(univ):
            nums = NUMSETS[i % len(NUMSETS)]

            def val(v, numeric):
                if v == NONE_TOK:
                    return None
                return nums[int(s_(v))] if numeric else s_(v)
            try:
                p = tf.Point(time=base_t + timedelta(microseconds=i), measurement=s_(u["m"]),
                             tags={s_(k): val(v, False) for k, v in u["tags"]},
                             fields={s_(k): val(v, True) for k, v in u["fields"]})
            except Exception as e:
                rep.violation("a valid point of the universe is rejected by Point(): %r (%s)" % (u, e), {"point": u}, tags={"rejected"})
                continue
            items.append((p, u["style"] == "compact"))
            meta.append(u)
        for di, dialect in enumerate(DIALECTS if thorough else DIALECTS[:2]):
            chunk = items if di == 0 else items[:: 4]
            cmeta = meta if di == 0 else meta[:: 4]
            orig = [(copy_point(tf, p), c) for p, c in chunk]
            try:
                got, rows = roundtrip(tf, scratch, [(copy_point(tf, p), c) for p, c in chunk], dialect, "u%d" % di)
            except Exception as e:
                rep.violation("round trip of the universe raised %s: %s (dialect %r)" % (type(e).__name__, e, dialect), {"dialect": str(dialect)}, tags={"raise", "universe"})
                continue
            if len(got) != len(orig):
                rep.violation("wrote %d points, read back %d (dialect %r)" % (len(orig), len(got), dialect), {"dialect": str(dialect)}, tags={"count"})
                continue
            n_checked += check_select(rep, orig, "universe", dialect)
            for (p, c), q, u in zip(orig, got, cmeta):
                n_checked += 1
                d = same_point(p, q)
                if d:
                    rep.violation("round trip changes a point: %s (style %s, dialect %r): %r -> %r" % (d, u["style"], dialect, p, q),
                                  {"point": u, "dialect": str(dialect)}, tags=classify(p) | {"universe"})
            reprs_in = {repr((p.time, p.measurement, sorted(p.tags.items(), key=repr), sorted((k, repr(v)) for k, v in p.fields.items()))) for p, _ in orig}
            reprs_out = {repr((q.time, q.measurement, sorted(q.tags.items(), key=repr), sorted((k, repr(float(v)) if v is not None else "None") for k, v in q.fields.items()))) for q in got}
            if len(reprs_out) < len({repr((p.time,)) for p, _ in orig}):
                rep.violation("distinct points decode to the same point", {"dialect": str(dialect)}, tags={"injectivity"})
            if di == 0:
                # ---- code -> spec: the rows the real serializer wrote, judged by TLC ------------------
                recs = []
                for j, ((p, c), row, u) in enumerate(zip(orig, rows, cmeta)):
                    nums = NUMSETS[j % len(NUMSETS)]
                    cells = []
                    ntag = len(u["tags"])
                    for ci, cell in enumerate(row):
                        if ci == 0:
                            cells.append(["T"])
                        elif ci >= 2 + 2 * ntag and (ci - 2 - 2 * ntag) % 2 == 1 and cell != "_none":
                            tok = next((str(t) for t, n in enumerate(nums) if same_value(float(cell), float(n))), None) \
                                if _isnum(cell) else None
                            cells.append([tok] if tok is not None else list("BAD:" + cell))
                        else:
                            cells.append(list(cell))
                    recs.append({"id": j, "time": ["T"], "m": u["m"], "style": u["style"], "row": cells,
                                 "tags": [[k, ["~"] if v == NONE_TOK else v] for k, v in u["tags"]],
                                 "fields": [[k, ["~"] if v == NONE_TOK else v] for k, v in u["fields"]]})
                if len(recs) > 24000:          # TLC re-reads the file once per worker: judge an evenly spread sample of the rows
                    recs = recs[:: len(recs) // 24000 + 1]
                path = os.path.join(scratch, "rows.json")
                with open(path, "w") as fh:
                    json.dump(recs, fh)
                rv = tlc.run_tlc("MC_Codec", tlc.cfg_text(constants={"Small": True, "Mode": "validate"}, invariants=["RealRowOK"]),
                                 env={"VERIF_IN": path}, workers=8, timeout=1800)
                tlc.require_clean(rv, "MC_Codec validate")
                if rv.distinct != len(recs) + 1:
                    raise tlc.MachineryError("TLC judged %d of %d rows" % (rv.distinct - 1, len(recs)))
                for bad in rv.lines("BAD"):
                    p, c = orig[bad["id"]]
                    rep.violation("row written by the serializer %r: %s; the format prescribes %r (point %r)"
                                  % (rows[bad["id"]], ",".join(bad["clauses"]), ["".join(x) for x in bad["expected"]], p),
                                  {"point": cmeta[bad["id"]], "row": rows[bad["id"]]}, tags=classify(p) | {"row"} | set(bad["clauses"]))
        # ---- breadth: seeded random points ------------------------------------------------------------
        n_rand = 60000 if thorough else 3000
        for di, dialect in enumerate(DIALECTS):
            batch = []
            for i in range(n_rand // len(DIALECTS)):
                tags = {rand_text(rng): (None if rng.random() < 0.15 else rand_text(rng)) for _ in range(rng.choice([0, 1, 1, 2, 3]))}
                fields = {rand_text(rng): rand_number(rng) for _ in range(rng.choice([0, 1, 1, 2, 3]))}
                if dialect.get("quotechar") == "'" or dialect.get("delimiter") == ";":
                    pass
                batch.append((tf.Point(time=rand_time(rng), measurement=rand_text(rng), tags=tags, fields=fields), rng.random() < 0.5))
            orig = [(copy_point(tf, p), c) for p, c in batch]
            try:
                got, _ = roundtrip(tf, scratch, batch, dialect, "r%d" % di)
            except Exception as e:
                # find the culprit by bisection so that the report names one point
                culprit = _bisect(tf, scratch, orig, dialect)
                rep.violation("round trip raised %s: %s (dialect %r) for point %r" % (type(e).__name__, str(e)[:100], dialect, culprit),
                              {"dialect": str(dialect), "point": repr(culprit)}, tags={"raise"} | (classify(culprit) if culprit else set()) | _text_tags(culprit))
                continue
            if len(got) != len(orig):
                culprit = _bisect(tf, scratch, orig, dialect)
                rep.violation("wrote %d points, read back %d (dialect %r); first offending point %r" % (len(orig), len(got), dialect, culprit),
                              {"dialect": str(dialect), "point": repr(culprit)}, tags={"count"} | _text_tags(culprit))
                continue
            n_checked += check_select(rep, orig, "random points", dialect)
            for (p, c), q in zip(orig, got):
                n_checked += 1
                d = same_point(p, q)
                if d:
                    rep.violation("round trip changes a point: %s (compact=%s, dialect %r): %r -> %r" % (d, c, dialect, p, q),
                                  {"dialect": str(dialect), "point": repr(p)}, tags=classify(p) | {"random"} | _text_tags(p))
            if len(samples) < 3:
                samples.append(repr(orig[0][0])[:300])
            # the same points read back through the live instance after the file was rewritten
            safe = [(copy_point(tf, p), c) for p, c in orig if not classify(p) and p.measurement not in ("sacrifice-1", "sacrifice-2")]
            try:
                got2, counts = live_roundtrip(tf, scratch, [(copy_point(tf, p), c) for p, c in safe], dialect, "l%d" % di)
            except Exception as e:
                rep.violation("rewrite + read through the live instance raised %s: %s (dialect %r)" % (type(e).__name__, str(e)[:100], dialect),
                              {"dialect": str(dialect)}, tags={"raise", "live"})
                continue
            if counts != (1, 1) or len(got2) != len(safe):
                rep.violation("live instance after rewrite: removed/updated %r, %d points for %d written (dialect %r)" % (counts, len(got2), len(safe), dialect),
                              {"dialect": str(dialect)}, tags={"count", "live"})
                continue
            for (p, c), q in zip(safe, got2):
                n_checked += 1
                d = same_point(p, q)
                if d:
                    rep.violation("reading through the live instance after a rewrite changes a point: %s (dialect %r): %r -> %r" % (d, dialect, p, q),
                                  {"dialect": str(dialect), "point": repr(p)}, tags={"live"} | _text_tags(p))
            # ... and written with flush_on_insert=False, read back through the same instance before anything was flushed
            try:
                got3 = unflushed_roundtrip(tf, scratch, [(copy_point(tf, p), c) for p, c in safe], dialect, "n%d" % di)
            except Exception as e:
                rep.violation("flush_on_insert=False: reading back through the live instance raised %s: %s (dialect %r)" % (type(e).__name__, str(e)[:100], dialect),
                              {"dialect": str(dialect)}, tags={"raise", "unflushed"})
                continue
            if len(got3) != len(safe):
                rep.violation("flush_on_insert=False: %d points read back for %d written (dialect %r)" % (len(got3), len(safe), dialect),
                              {"dialect": str(dialect)}, tags={"count", "unflushed"})
                continue
            for (p, c), q in zip(safe, got3):
                n_checked += 1
                d = same_point(p, q)
                if d:
                    rep.violation("flush_on_insert=False: reading through the live instance changes a point: %s (dialect %r): %r -> %r" % (d, dialect, p, q),
                                  {"dialect": str(dialect), "point": repr(p)}, tags={"unflushed"} | _text_tags(p))
    finally:
        shutil.rmtree(scratch, ignore_errors=True)
    rep.coverage = {
        "states": r.distinct + rv.distinct, "transitions": r.states + rv.states,
        "traces_validated_against_impl": len(univ) + len(recs),
        "evaluations": n_checked, "distinct_nontrivial": len(univ) + n_rand,
        "rule": "universe: every point with <=1 tag and <=1 field (thorough: also all 2-key pairs) over keys/values/measurements drawn from the reserved words, prefixes, their fragments and the "
                "empty string, both prefix styles, model-checked (De(Ser(p)) = p) and round-tripped through the real CSVStorage (insert, close, reopen, all()); the rows written are judged by TLC "
                "against Ser/De; breadth: %d seeded random points (Unicode incl. delimiters/quotes/CR/LF/NUL/astral, float64 bit patterns, ints to 2^70, microsecond instants 1700-2240) over 4 dialects; "
                "distinct = universe points + random points" % n_rand,
        "samples": samples or [json.dumps(univ[0])],
        "exhaustive": True, "universe_points": len(univ), "random_points": n_rand,
        "sentinel_collision_is_a_counterexample_of_the_format": sentinel_is_counterexample, "checker_cmd": r.cmd,
    }
    rep.assumptions = ["float64 and Unicode are sampled, not enumerated", "NaN field values are outside the domain",
                       "the numeric text layer (str(float(v)) / float(text)) is checked on the sampled values only"]
    return rep.finish()


def _isnum(cell):
    try:
        float(cell)
        return True
    except ValueError:
        return False


def _text_tags(p):
    if p is None:
        return set()
    texts = [p.measurement] + list(p.tags) + [v for v in p.tags.values() if v is not None] + list(p.fields)
    out = set()
    if any("\x00" in t for t in texts):
        out.add("text_has_NUL")
    if any("\r" in t or "\n" in t for t in texts):
        out.add("text_has_linebreak")
    return out


def _bisect(tf, scratch, items, dialect):
    """smallest failing single point (best effort)"""
    for p, c in items:
        try:
            got, _ = roundtrip(tf, scratch, [(copy_point(tf, p), c)], dialect, "b")
            if len(got) != 1:
                return p
        except Exception:
            return p
    return None


def replay(rep):
    print(json.dumps(rep["case"])[:2000])
    return 1
