"""C13 - an I/O error during an operation is reported and corrupts nothing.

For every operation of sampled histories on CSV storage the fault-free run is
recorded first with the I/O proxies, which yields the exact list of I/O calls the
operation makes.  Then, for EVERY call index k of that operation, the history is
re-run with an OSError (ENOSPC / EIO) injected at call k - before the call takes
effect, and for flush / fsync / close also after it did.  After the fault the live
object's own storage is scanned, reads are made, one more insert is attempted, the
database is closed and the file decoded.  TLC judges each run (clauses
fault_reported, fault_storage, fault_reads, fault_file of Trace_TinyFlux.tla).
"""
import json
import random

import common
import concretise
import core
import gen
import storage
import tlc
import traces

AFTER_CALLS = ("flush", "fsync", "close")


def fault_jobs(rng, nh, thorough, per_op=40):
    """fault-free recordings of nh histories, then one job per (operation, I/O call index[, after-effect])"""
    hist = []
    for i in range(nh):
        g = gen.Gen(rng.randrange(1 << 30), focus={"insert": 5, "insert_multiple": 3, "remove": 4, "update": 4, "update_all": 1, "drop": 2, "remove_all": 2, "reopen": 0, "fail": 0.0, "bad": 0.0}, handles=0.1)
        hist.append((i % 2, g.history(g.r.choice([6, 9, 12]), p_read=0.25), g))
    g = gen.Gen(rng.randrange(1 << 30), handles=0.0)          # ... and one whose batch has several hundred points
    hist.append((1, [{"op": "insert", "p": g.point(0), "m": -1, "compact": 0},
                     {"op": "insert_multiple", "ps": [g.point(t=min(gen.NT - 1, 1 + k // 12)) for k in range(300)], "m": -1, "bad": 0}], g))
    # ... and two in which the index is rebuilt from storage: by the first read after an out-of-order insert, by reindex(), after an update
    NOOP = {"k": "meas", "key": 0, "key2": 0, "mf": 0, "op": "noop", "v": 0, "tf": 0}
    for ai in (1, 0):
        g = gen.Gen(rng.randrange(1 << 30), handles=0.0)
        hist.append((ai, [{"op": "insert", "p": g.point(5), "m": -1, "compact": 0}, {"op": "insert", "p": g.point(3), "m": -1, "compact": 0},
                          {"op": "insert", "p": g.point(4), "m": -1, "compact": 0}, {"op": "count", "q": NOOP, "m": -1},
                          {"op": "insert", "p": g.point(1), "m": -1, "compact": 0}, {"op": "reindex"},
                          {"op": "update", "q": NOOP, "m": -1, "fail": 0,
                           "u": {"tk": 0, "tv": 0, "mk": 1, "mv": 3, "tgk": 0, "tgv": [], "fdk": 0, "fdv": [], "utg": [], "ufd": []}},
                          {"op": "get_timestamps", "m": -1}], g))
    nh = len(hist)
    # every eighth history runs on a database opened with access_mode="w+" (emptied when opened, never by a later reopen)
    hopts = [({"mode": "w+"}, {"csv": {"access_mode": "w+"}}) if i % 8 == 5 else ({}, {}) for i in range(len(hist))]
    base = traces.record_all([("h%d" % i, "csv", ai, ops, [], 3, 3, dict(hopts[i][0], io=True)) for i, (ai, ops, g) in enumerate(hist)])
    jobs = []
    for i, (ai, ops, g) in enumerate(hist):
        tr = base[i]
        ops = [e["a"] for e in tr["events"]]          # adaptive operations as they were resolved in the fault-free run
        for j, ev in enumerate(tr["events"]):
            calls = ev["io"]["counted"]
            if not calls or ev["exc"]:
                continue
            ks = list(range(len(calls)))
            if len(ks) > (per_op if not thorough else 240):
                # stratified: the first, a middle and the last occurrence of every kind of call, the rest at random
                must = set()
                for name in set(calls):
                    occ = [x for x in ks if calls[x] == name]
                    must |= {occ[0], occ[len(occ) // 2], occ[-1]}
                rest = [x for x in ks if x not in must]
                cap = per_op if not thorough else 240
                ks = sorted(must | set(rng.sample(rest, max(0, min(len(rest), cap - len(must))))))
            reads = [{"op": "count", "q": {"k": "meas", "key": 0, "key2": 0, "mf": 0, "op": "noop", "v": 0, "tf": 0}, "m": -1},
                     {"op": "all", "m": -1, "sorted": 0},
                     {"op": "search", "q": g.atom(), "m": -1, "sorted": 1},
                     {"op": "get_timestamps", "m": -1},
                     {"op": "len", "m": -1},
                     {"op": "count", "q": g.query(1), "m": -1}]
            for k in ks:
                name = calls[k].split(":")[0]
                variants = [0] + ([1] if name in AFTER_CALLS else [])
                for after in variants:
                    jobs.append(("h%d-op%d-k%d-%d" % (i, j, k, after), ai, ops, j, k, after, g.point(), reads, hopts[i][1]))
    return jobs


def main():
    rep = common.Report("C13", "fault_enumeration")
    common.use_repo()
    thorough = rep.tier == "thorough"
    rng = random.Random(rep.seed * 1013 + 13)
    nh = 800 if thorough else 40
    jobs = fault_jobs(rng, nh, thorough)
    recorded = traces.record_faults(jobs)
    verdicts, js = traces.judge(recorded)
    byid = {t["id"]: t for t in recorded}
    injected = 0
    kinds = set()
    for t in recorded:
        f = t["events"][-1].get("fault", {})
        if f.get("injected"):
            injected += 1
            kinds.add((t["events"][-1]["a"]["op"], f.get("at")))
    for tid, v in verdicts.items():
        tr = byid[tid]
        for err in traces.errors(v):
            ev = traces.failing_event(tr, err)
            if "fault" not in ev:
                continue
            if err["clause"] == "fault_tmp":      # a file left behind is C15's clause (checks/storage.py runs these jobs for it)
                continue
            f = ev["fault"]
            after = tid.rsplit("-", 1)[1]
            tags = {"clause:" + err["clause"], "op:" + ev["a"]["op"], "at:" + f["at"], "after:" + after, "ai:%d" % tr["auto_index"]}
            if f["at"] in ("copy_data_half:db", "copy_data:db", "copy_done:db") or (f["at"] == "copy_open:db" and after == "1"):
                tags.add("in_copy_window")
            what = ("csv storage, auto_index=%d, history of %d call(s), then %s with OSError injected %s I/O call '%s': clause '%s' fails "
                    "(caller saw %s; scan %s; reads %s; insert afterwards %s; file after close %s); spec expected %s"
                    % (tr["auto_index"], len(tr["events"]) - 1, json.dumps(ev["a"])[:300], "after" if after == "1" else "at", f["at"], err["clause"],
                       ev["exc"] or "no error", "raised" if f["scan_raised"] else json.dumps(f["scan"])[:200],
                       json.dumps([(r["exc"] or r["res"]) for r in f["reads"]])[:300], "ok" if f["ins_ok"] else "failed",
                       json.dumps(f["final"])[:200], json.dumps(err["expected"])[:300]))
            rep.violation(what, {"auto_index": tr["auto_index"], "ops": [e["a"] for e in tr["events"]], "fault_at": f["at"], "after": after,
                                 "clause": err["clause"]}, tags=tags)
            break
    rep.coverage = {
        "evaluations": len(recorded),
        "distinct_nontrivial": len(kinds),
        "rule": "for each of %d seeded histories on CSV storage and each operation in it: one run per I/O call index k of that operation (the calls are those the recording "
                "proxies saw in the fault-free run; at most 40 sampled per operation in the quick tier) with OSError injected at call k, plus an after-effect variant for "
                "flush/fsync/close; non-trivial = distinct (operation kind, failing I/O call) pairs in which the fault was really injected" % nh,
        "samples": [{"op": k[0], "failing_call": k[1]} for k in sorted(kinds)[:: max(1, len(kinds) // 5)][:5]],
        "faults_injected": injected, "runs": len(recorded), "states": js["states"], "transitions": js["transitions"],
        "traces_validated_against_impl": len(recorded), "checker_cmd": js["cmd"], "exhaustive": False,
    }
    rep.assumptions = ["single faults only", "the error is raised at the Python file API (proxy), not by the kernel",
                       "the live object's own storage is what plain iteration over it returns"]
    return rep.finish()


def replay(repj):
    print(json.dumps(repj["case"])[:2000])
    return 1
