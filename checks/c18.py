"""C18 - sorted-list search helpers.

spec -> code : TLC enumerates every sorted list of length 0..7 over 5 values and
               11 probes (inside, between, outside) with the results that module
               Bisect defines; the real find_* are run on each case under two
               order-embeddings (ints, floats) and must agree.
code -> spec : seeded random float lists (duplicates forced) are run through the
               real find_*, rank-compressed, and the recorded results are judged
               by TLC against the same operators.
"""
import json
import os
import random

import datetime as _dt

import common
import tlc

FUNCS = ["find_eq", "find_lt", "find_le", "find_gt", "find_ge"]

_T0 = _dt.datetime(2021, 3, 1, tzinfo=_dt.timezone.utc)


def _none(v):
    return -1 if v is None else v


def main():
    rep = common.Report("C18", "model_checking")
    tf = common.use_repo()
    from tinyflux import utils
    fns = [getattr(utils, f) for f in FUNCS]
    thorough = rep.tier == "thorough"

    # ---- spec -> code ------------------------------------------------------
    maxlen = 8 if thorough else 7
    cfg = tlc.cfg_text(constants={"Vals": {1, 3, 5, 7, 9}, "Probes": set(range(0, 11)),
                                  "MaxLen": maxlen, "Mode": "export"},
                       invariants=["Emit", "Laws"])
    r = tlc.run_tlc("MC_Bisect", cfg, workers=1)
    tlc.require_clean(r, "MC_Bisect export")
    if r.violated:
        raise tlc.MachineryError("Bisect laws violated in the specification itself: %s" % r.violated)
    cases = r.lines("CASE")
    if not cases:
        raise tlc.MachineryError("no cases exported")
    n_eval = 0
    distinct = set()
    samples = []
    # order-embeddings (list values are odd, probes 0..10): ints; floats; huge negative floats; and a MIXED one - an
    # int list probed with floats (equal to a member for odd probes, strictly between members for even ones)
    embeddings = [("int", lambda v: v, lambda x: x), ("float", lambda v: v * 0.1 - 0.35, lambda x: x * 0.1 - 0.35),
                  ("neg", lambda v: float(v - 20) * 1e300, lambda x: float(x - 20) * 1e300),
                  ("int-list-float-probe", lambda v: v, lambda x: float(x) if x % 2 else x - 0.5),
                  ("float-list-int-probe", lambda v: float(v), lambda x: x),
                  # large values at small distances (epoch seconds a millisecond apart; datetimes a microsecond apart):
                  # a tolerant comparison would merge neighbours
                  ("epoch-ms", lambda v: 1.6e9 + v * 0.001, lambda x: 1.6e9 + x * 0.001),
                  ("datetime-us", lambda v: _T0 + _dt.timedelta(microseconds=v), lambda x: _T0 + _dt.timedelta(microseconds=x)),
                  ("str", lambda v: "k%02d" % v, lambda x: "k%02d" % x)]
    for c in cases:
        l = c["l"] if isinstance(c["l"], list) else []
        for name, emb, pemb in embeddings:
            cl = [emb(v) for v in l]
            for pi, x in enumerate(c["probes"]):
                exp = c["r"][pi]
                try:
                    got = [_none(f(list(cl), pemb(x))) for f in fns]
                except Exception as e:  # noqa
                    got = "raised %r" % (e,)
                n_eval += 1
                distinct.add((tuple(l), x))
                if got != exp:
                    bad = [FUNCS[i] for i in range(5) if got == str(got) or got[i] != exp[i]]
                    rep.violation("%s(%r, %r): expected %r (eq,lt,le,gt,ge; -1=None), got %r [%s embedding]"
                                  % ("/".join(bad), cl, pemb(x), exp, got, name),
                                  {"kind": "export", "list": cl, "probe": pemb(x), "expected": exp, "got": got},
                                  tags=bad)
        if len(samples) < 3 and len(l) >= 4:
            samples.append({"list": l, "probe": c["probes"][4], "expected_eq_lt_le_gt_ge": c["r"][4]})
    # the same LIST OBJECT searched, grown at its tail (the way the index's timestamp list grows), and searched again: the
    # expectation for the grown list is the exported one for that list; nothing may be remembered from the first search
    table = {(tuple(c["l"] if isinstance(c["l"], list) else []), pi): c["r"][pi] for c in cases for pi in range(len(c["probes"]))}
    probes = cases[0]["probes"] if cases else []
    n_grown = 0
    for c in cases[:: 3 if not thorough else 1]:
        l = c["l"] if isinstance(c["l"], list) else []
        if not l or len(l) >= maxlen:
            continue
        for grow in (l[-1], l[-1] + 2):
            l2 = l + [grow]
            if (tuple(l2), 0) not in table:
                continue
            shared = list(l)
            for pi, x in enumerate(probes):
                for f in fns:
                    f(shared, x)
            shared.append(grow)
            for pi, x in enumerate(probes):
                exp = table[(tuple(l2), pi)]
                try:
                    got = [_none(f(shared, x)) for f in fns]
                except Exception as e:  # noqa
                    got = "raised %r" % (e,)
                n_eval += 1
                n_grown += 1
                if got != exp:
                    bad = [FUNCS[i] for i in range(5) if got == str(got) or got[i] != exp[i]]
                    rep.violation("%s(%r, %r) after the same list object had been searched and then grown by %r: expected %r, got %r"
                                  % ("/".join(bad), l2, x, grow, exp, got),
                                  {"kind": "grown", "list": l2, "probe": x, "expected": exp, "got": got}, tags=bad + ["grown"])

    # the same LIST OBJECT searched, REWRITTEN IN PLACE to another sorted list of the same length (the way the index's
    # lists are renumbered after a removal), and searched again with the same probe straight away: the expectation is the
    # exported one for the new contents; neither the object's identity nor its length says anything about its contents
    bylen = {}
    for c in cases:
        l = c["l"] if isinstance(c["l"], list) else []
        bylen.setdefault(len(l), []).append(l)
    n_inplace = 0
    for n, ls in bylen.items():
        if n == 0:
            continue
        for li, l in enumerate(ls[:: 2 if not thorough else 1]):
            l2 = ls[(li * 7 + 3) % len(ls)]
            if l2 == l:
                continue
            shared = list(l)
            for pi, x in enumerate(probes):
                exp = table[(tuple(l2), pi)]
                got = []
                for f in fns:
                    try:
                        shared[:] = l
                        f(shared, x)
                        shared[:] = l2
                        got.append(_none(f(shared, x)))
                    except Exception as e:  # noqa
                        got = "raised %r" % (e,)
                        break
                n_eval += 1
                n_inplace += 1
                if got != exp:
                    bad = [FUNCS[i] for i in range(5) if got == str(got) or got[i] != exp[i]]
                    rep.violation("%s(%r, %r) right after the same call on the same list object holding %r: expected %r, got %r"
                                  % ("/".join(bad), l2, x, l, exp, got),
                                  {"kind": "inplace", "list": l2, "before": l, "probe": x, "expected": exp, "got": got}, tags=bad + ["inplace"])

    # ---- code -> spec ------------------------------------------------------
    rng = random.Random(rep.seed * 7919 + 18)
    n_rand = 60000 if thorough else 4000
    scratch = tlc.mkscratch("c18-")
    try:
        recs = []
        raw = {}
        for i in range(n_rand):
            n = rng.randint(0, 12)
            pool = [rng.choice([rng.uniform(-1e3, 1e3), rng.gauss(0, 1e-9), float(rng.randint(-3, 3)),
                                rng.choice([float("inf"), float("-inf"), 0.0, -0.0, 5e-324, 1.7e308])])
                    for _ in range(max(1, n // 2 + 1))]
            l = sorted(rng.choice(pool) for _ in range(n))
            x = rng.choice(pool + [rng.uniform(-2e3, 2e3)]) if rng.random() < 0.7 else rng.uniform(-2e3, 2e3)
            try:
                got = [_none(f(list(l), x)) for f in fns]
            except Exception as e:  # noqa
                rep.violation("find_* raised %r on %r probe %r" % (e, l, x), {"kind": "random", "list": l, "probe": x}, tags=["raise"])
                continue
            vals = sorted(set(l) | {x})
            rank = {v: k for k, v in enumerate(vals)}
            # -0.0 == 0.0 in Python: same rank (dict lookup by equality does that already)
            recs.append({"id": i, "l": [rank[v] for v in l], "x": rank[x], "r": got})
            raw[i] = (l, x, got)
            distinct.add((tuple(l), x))
        path = os.path.join(scratch, "cases.ndjson")
        with open(path, "w") as fh:
            for rec in recs:
                fh.write(json.dumps(rec) + "\n")
        cfg2 = tlc.cfg_text(constants={"Vals": {0}, "Probes": {0}, "MaxLen": 0, "Mode": "validate"},
                            invariants=["Emit", "Laws"])
        r2 = tlc.run_tlc("MC_Bisect", cfg2, env={"VERIF_IN": path}, workers=8)
        tlc.require_clean(r2, "MC_Bisect validate")
        if r2.violated:
            raise tlc.MachineryError("Bisect laws violated on recorded cases: %s" % r2.violated)
        if r2.distinct != len(recs):
            raise tlc.MachineryError("TLC judged %d of %d recorded cases" % (r2.distinct, len(recs)))
        for bad in r2.lines("BAD"):
            l, x, got = raw[bad["id"]]
            which = [FUNCS[i] for i in range(5) if got[i] != bad["expected"][i]]
            rep.violation("%s(%r, %r): spec expects %r, implementation returned %r" % ("/".join(which), l, x, bad["expected"], got),
                          {"kind": "random", "list": l, "probe": x, "expected": bad["expected"], "got": got}, tags=which)
        n_eval += len(recs)
    finally:
        import shutil
        shutil.rmtree(scratch, ignore_errors=True)

    rep.extra["apalache"] = apalache_laws()
    rep.coverage = {
        "states": r.distinct + r2.distinct,
        "transitions": r.states + r2.states,
        "traces_validated_against_impl": len(cases) * len(embeddings) + len(recs),
        "evaluations": n_eval,
        "distinct_nontrivial": len(distinct),
        "rule": "export: every sorted list of length 0..%d over {1,3,5,7,9} x probes 0..10, three order-embeddings; "
                "validate: seeded random float lists (len 0..12, forced duplicates, +-inf, +-0.0, subnormal) rank-compressed and judged by TLC; "
                "distinct = distinct (list, probe) pairs" % maxlen,
        "samples": samples,
        "exhaustive": True,
        "checker_cmd": r.cmd,
    }
    rep.assumptions = ["Python's comparison on ints/floats is the order the helpers are meant for (NaN excluded)",
                       "TLC evaluates the set-comprehension definitions of module Bisect correctly"]
    return rep.finish()


def apalache_laws():
    """Symbolic check (Apalache) of the boundary laws for every sorted INTEGER list of length <= 6 and every integer
    probe - no finite value domain.  Optional: reported if it finishes; a counterexample would be a defect of the
    specification, not of the implementation."""
    import shutil
    import subprocess
    import time
    exe = shutil.which("apalache-mc")
    if not exe:
        return {"ran": False, "why": "apalache-mc not on PATH"}
    out = tlc.mkscratch("apa-")
    t0 = time.time()
    try:
        p = subprocess.run([exe, "check", "--cinit=CInit", "--inv=Laws", "--length=8", "--out-dir=" + out, "Apa_Bisect.tla"],
                           cwd=tlc.SPEC, stdout=subprocess.PIPE, stderr=subprocess.STDOUT, text=True, timeout=240)
        txt = p.stdout
    except subprocess.TimeoutExpired:
        return {"ran": True, "finished": False, "seconds": round(time.time() - t0, 1)}
    finally:
        shutil.rmtree(out, ignore_errors=True)
    if "The outcome is: NoError" in txt:
        return {"ran": True, "finished": True, "outcome": "NoError", "length": 8, "max_list_length": 6, "seconds": round(time.time() - t0, 1)}
    if "The outcome is: Error" in txt or "violat" in txt.lower():
        raise tlc.MachineryError("Apalache found a counterexample to the Bisect laws (a defect of the specification):\n" + txt[-1500:])
    return {"ran": True, "finished": False, "note": txt[-300:], "seconds": round(time.time() - t0, 1)}


def replay(rep):
    common.use_repo()
    from tinyflux import utils
    c = rep["case"]
    if c.get("kind") == "grown":          # search the list without its last element (every probe), grow it, search again
        shared = list(c["list"][:-1])
        for x in range(0, 11):
            for f in FUNCS:
                getattr(utils, f)(shared, x)
        shared.append(c["list"][-1])
        got = [_none(getattr(utils, f)(shared, c["probe"])) for f in FUNCS]
    else:
        got = [_none(getattr(utils, f)(list(c["list"]), c["probe"])) for f in FUNCS]
    print("list=%r probe=%r\n expected=%r\n got     =%r" % (c["list"], c["probe"], c.get("expected"), got))
    return 0 if got == c.get("expected") else 1
