"""Design-level check of spec/CsvIO.tla (used by the storage checks)."""
import tlc

INVS = ["TypeOK", "EarlierRowsSafe", "AppendOnly", "InsertCost", "NoTempLeft", "FileHoldsContents"]


def _run(swap, flush, invs, maxrows, maxops):
    cfg = tlc.cfg_text(constants={"Rows": {1, 2, 3}, "MaxRows": maxrows, "Swap": swap, "FlushOnInsert": flush, "MaxOps": maxops},
                       invariants=invs)
    r = tlc.run_tlc("CsvIO", cfg, workers=8, timeout=900)
    tlc.require_clean(r, "CsvIO %s flush=%s" % (swap, flush))
    return r


def check(thorough=False):
    mr, mo = (4, 3) if thorough else (3, 3)
    out = {"states": 0, "transitions": 0, "runs": []}
    # 1. the copy-based swap (what the code does): consistent everywhere outside the copy window
    r1 = _run("copy", True, INVS + ["CrashConsistentOutsideCopyWindow"], mr, mo)
    if r1.violated:
        raise tlc.MachineryError("CsvIO design (copy swap) violates %s\n%s" % (r1.violated, r1.tail(40)))
    # 2. ... and inconsistent inside it: the known finding must still be a counterexample of the model
    r2 = _run("copy", True, ["CrashConsistent"], mr, mo)
    # 3. a rename-based swap is crash consistent outright
    r3 = _run("rename", True, INVS + ["CrashConsistent"], mr, mo)
    if r3.violated:
        raise tlc.MachineryError("CsvIO design (rename swap) violates %s\n%s" % (r3.violated, r3.tail(40)))
    # 4. flush_on_insert = False: earlier rows are never lost, nothing else is promised before close
    r4 = _run("copy", False, ["TypeOK", "EarlierRowsSafe", "NoTempLeft"], mr, mo)
    if r4.violated:
        raise tlc.MachineryError("CsvIO design (no flush) violates %s\n%s" % (r4.violated, r4.tail(40)))
    for name, r in (("copy/outside-window", r1), ("copy/strict", r2), ("rename/strict", r3), ("copy/noflush", r4)):
        out["states"] += r.distinct
        out["transitions"] += r.states
        out["runs"].append({"instance": name, "distinct_states": r.distinct, "violated": r.violated})
    out["copy_window_is_a_counterexample"] = "CrashConsistent" in r2.violated
    return out


if __name__ == "__main__":
    import json
    print(json.dumps(check(), indent=1))
