"""Shared engine of the history properties (C01 C02 C03 C06 C07 C10 C11):

  1. design check   - TLC explores module TinyFlux exhaustively over a bounded
                      vocabulary (MC_TinyFlux, mode "check"): index = rebuild,
                      index search = Eval, getters, action properties.
  2. code -> spec   - seeded random histories over a larger vocabulary are run
                      against the real package in all four configurations
                      {CSV, memory} x {auto_index on, off}; every call is logged
                      with its result, the projected contents, the validity flag
                      and observations of the real index, and TLC judges each
                      trace against Trace_TinyFlux (all clauses at every step).
  3. spec -> code   - TLC enumerates every path up to a depth over focused
                      alphabets (MC_TinyFlux, mode "paths") and random deep
                      behaviours (-simulate); the paths are executed on the real
                      package and judged the same way.

A check reports the failing clauses it owns (traces.owner); failures owned by
another property are counted in the evidence as cut_by_other_property.
"""
import json
import random

import common
import concretise
import gen
import tlc
import traces

NTK, NFK = 3, 3

FOCUS = {
    "C01": dict(p_read=0.6, handles=0.15, weights={"remove": 5, "negfield": 0.35, "reads": ["search", "search", "count", "contains", "get", "select", "count", "get_timestamps", "all"]}),
    "C02": dict(p_read=0.45, handles=0.15, weights={"remove": 7, "drop": 3, "remove_all": 2, "update": 1, "update_all": 0, "negfield": 0.3}),
    "C03": dict(p_read=0.4, handles=0.15, weights={"update": 8, "update_all": 3, "remove": 1, "fail": 0.0}),
    "C06": dict(p_read=0.45, handles=0.1, weights={"negfield": 0.3, "remove": 5, "remove_all": 2, "reindex": 2, "insert_multiple": 3, "fail": 0.15, "bad": 0.3}),
    "C07": dict(p_read=0.65, handles=0.3, weights={"remove": 5, "drop": 1, "update": 2, "reads": [
        "all", "len", "iter", "repr", "get_measurements", "get_tag_keys", "get_tag_values", "get_field_keys", "get_field_values",
        "get_timestamps", "get_tag_keys", "get_tag_values", "get_field_keys", "get_field_values", "get_timestamps", "count"]}),
    "C10": dict(p_read=0.5, handles=0.9, weights={"remove": 5, "drop": 3, "update": 4, "update_all": 2, "negfield": 0.4}),
    "C11": dict(p_read=0.45, handles=0.2, weights={"update": 7, "update_all": 3, "insert_multiple": 5, "fail": 0.7, "bad": 0.6}),
}

MC_INVS = ["InvRebuild", "InvWF", "InvGetters", "InvSearch", "InvTyped", "InvLaws"]


def design_check(thorough, alpha="mc"):
    """TLC on the bounded design; returns (states, transitions, cmd)."""
    states = trans = 0
    cmd = ""
    for ai in (True, False):
        ml = 4 if (thorough and ai) else 3
        cfg = tlc.cfg_text(init="MCInit", next_="MCNext",
                           constants={"Mode": "check", "Alpha": alpha, "MaxLen": ml, "Depth": 0, "AutoIndex": ai},
                           invariants=MC_INVS, properties=["KeepsValid"])
        r = tlc.run_tlc("MC_TinyFlux", cfg, workers=16, timeout=1800)
        if r.violated or any("ACTION-PROPERTY" in l for l in r.stdout.splitlines()):
            raise tlc.MachineryError("the bounded design itself violates %s (auto_index=%s):\n%s"
                                     % (r.violated or "an action property", ai, r.tail(40)))
        tlc.require_clean(r, "MC_TinyFlux check")
        states += r.distinct
        trans += r.states
        cmd = r.cmd
    return states, trans, cmd


NONE_ = concretise.NONE


def random_jobs(pid, n, seed, length):
    f = FOCUS[pid]
    jobs = []
    for i in range(n):
        hostile = i % 3 == 2           # a third of the histories use CSV-hostile strings (line breaks, delimiters, quotes)
        rand = not hostile and i % 7 == 1       # a seventh (the moduli are coprime to the 4 configurations) use value tables drawn at random (themes._random_tables): the verdict must not
        #                                depend on which order-isomorphic values stand for the ranks
        g = gen.Gen(seed * 1000003 + i * 7919 + int(pid[1:]) * 131, ntk=NTK, nfk=NFK, focus=f["weights"], handles=f["handles"],
                    regex=not (hostile or rand))
        kind, ai = traces.CONFIGS[i % 4]
        ops = g.history(g.r.choice(length), p_read=f["p_read"])
        opts = {"theme": "csv-hostile"} if hostile else ({"theme": "random:%d" % (seed * 100000 + i)} if rand else {})
        if hostile and kind == "csv" and (i // 3) % 2 == 0:
            # ... half of them on a database opened with another csv dialect (every file the database writes must be in it)
            opts["csv"] = [{"delimiter": ";"}, {"quotechar": "'"}, {"quoting": 1}][(i // 6) % 3]
        if not hostile and not rand and i % 13 == 4:
            opts = {"theme": "bigint"}        # numbers: integers beyond 2**53 next to one another (regex tables as in the plain theme)
        jobs.append(("r%d" % i, kind, ai, ops, g.battery(), NTK, NFK, opts))
    for i in range(max(40, n // 10)):          # batches that are unordered within themselves (see gen.batch_scenario)
        g = gen.Gen(seed * 7771 + i * 13 + int(pid[1:]), ntk=NTK, nfk=NFK, focus=f["weights"], handles=0.0)
        kind, ai = traces.CONFIGS[(i % 3) if i % 4 else 1]      # mostly auto_index on
        opts = {}
        if i % 5 == 2:                          # integers beyond 2**53 (CSV: what the file holds must be read back exactly)
            opts, kind, ai = {"theme": "bigint"}, "csv", (i // 5) % 2
        elif i % 5 == 4:
            opts = {"theme": "random:%d" % (seed * 100000 + 50000 + i)}
        fix = gen.deregex if "random" in opts.get("theme", "") else (lambda x: x)
        jobs.append(("bs%d" % i, kind, ai, fix(g.batch_scenario()), fix(g.battery(3)), NTK, NFK, opts))
        jobs.append(("sr%d" % i, kind, ai, fix(g.scan_remove_scenario()), fix(g.battery(3)), NTK, NFK, opts))
    for i in range(4):                         # databases that are not small: a few hundred points already stored (CSV: beyond one 8 KiB buffer)
        g = gen.Gen(seed * 6007 + i * 29 + int(pid[1:]), ntk=NTK, nfk=NFK, focus=f["weights"], handles=f["handles"])
        kind, ai = traces.CONFIGS[i % 4]
        n0 = 150 + 60 * i
        pre = [g.point(t=min(gen.NT - 1, k * gen.NT // n0)) for k in range(n0)]
        jobs.append(("big%d" % i, kind, ai, g.history(10, p_read=f["p_read"]), g.battery(2), NTK, NFK, {"prefill": True, "prefill_points": pre}))
    for i in range(2):                         # batches of several hundred points in one insert_multiple call (list / iterator), one of them
        #                                        ending in a non-Point element
        g = gen.Gen(seed * 4001 + i * 31 + int(pid[1:]), ntk=NTK, nfk=NFK, focus=f["weights"], handles=0.0)
        kind, ai = traces.CONFIGS[(2 * i + seed) % 4]
        n1, n2 = 520 + 7 * i, 300 + 5 * i
        ops = [{"op": "insert", "p": g.point(0), "m": NONE_, "compact": 0},
               {"op": "insert_multiple", "ps": [g.point(t=min(gen.NT - 4, k * gen.NT // n1)) for k in range(n1)], "m": NONE_, "bad": 0},
               {"op": "count", "q": g.atom(), "m": NONE_},
               {"op": "len", "m": NONE_},
               {"op": "insert_multiple", "ps": [g.point(t=gen.NT - 3) for k in range(n2)], "m": NONE_, "bad": 1},
               {"op": "all", "m": NONE_, "sorted": 0},
               {"op": "count", "q": g.atom(), "m": NONE_},
               {"op": "insert_multiple", "ps": [g.point(t=gen.NT - 2) for k in range(n2)], "m": NONE_, "bad": 0},
               {"op": "len", "m": NONE_}]
        jobs.append(("bb%d" % i, kind, ai, ops, g.battery(2), NTK, NFK))
    if pid == "C07":                           # a CSV file well beyond 64 KiB full of quoted multi-line values; lengths and getters from storage
        for i in range(2):
            g = gen.Gen(seed * 911 + i, ntk=NTK, nfk=NFK, focus=f["weights"], handles=0.0, regex=False)
            n0 = 2600 + 450 * i
            pre = [g.point(t=min(gen.NT - 1, k * gen.NT // n0)) for k in range(n0)]
            for k, p in enumerate(pre):                  # every cell that can be is quoted: line breaks, delimiters, quotes (csv-hostile theme)
                p["tg"] = [1 + (k + j) % 4 for j in range(3)]
                p["fd"] = [(k + j) % 6 for j in range(3)]
                p["m"] = 1 + k % 3
            ops = [{"op": "len", "m": NONE_}, {"op": "len", "m": 1, "via": "handle"},
                   {"op": "insert", "p": g.point(gen.NT - 1), "m": NONE_, "compact": 0}, {"op": "len", "m": NONE_},
                   {"op": "get_measurements"}]
            jobs.append(("huge%d" % i, "csv", i % 2, ops, g.battery(1), NTK, NFK, {"theme": "csv-hostile", "prefill": True, "prefill_points": pre}))
    if pid in ("C01", "C02", "C03", "C06", "C07", "C10"):           # the same read twice through one handle with foreign writes in between (gen.reread_scenario)
        for i in range(max(40, n // 10)):
            g = gen.Gen(seed * 3331 + i * 19 + int(pid[1:]), ntk=NTK, nfk=NFK, focus=f["weights"], handles=0.0)
            kind, ai = traces.CONFIGS[i % 4]
            jobs.append(("rr%d" % i, kind, ai, g.reread_scenario(), g.battery(2), NTK, NFK))
    if pid in ("C03", "C11"):                  # one Point object stored several times, then failing updates (gen.alias_scenario)
        for i in range(max(24, n // 20)):
            g = gen.Gen(seed * 9973 + i * 17 + int(pid[1:]), ntk=NTK, nfk=NFK, focus=f["weights"], handles=0.0)
            jobs.append(("al%d" % i, "mem" if i % 4 else "csv", i % 2, g.alias_scenario(), g.battery(2), NTK, NFK))
    return jobs


def export_paths(alpha, depth, maxlen, auto_index=True, simulate=None, sim_depth=None, seed=None):
    cfg = tlc.cfg_text(init="MCInit", next_="MCNext",
                       constants={"Mode": "paths", "Alpha": alpha, "MaxLen": maxlen, "Depth": depth, "AutoIndex": auto_index},
                       invariants=["EmitPaths"], constraints=["PathBound", "ValueBound"])
    r = tlc.run_tlc("MC_TinyFlux", cfg, workers=16 if simulate is None else 4, timeout=1800,
                    simulate=simulate, depth=sim_depth, seed=seed)
    tlc.require_clean(r, "MC_TinyFlux paths (%s)" % alpha)
    paths = []
    for h in r.lines("PATH"):
        paths.append([fix_op(a) for a in concretise.fix_json(h)])
    return paths, r


def fix_op(a):
    """TLC prints records as JSON objects; make empty sequences lists again and pad the
    2-key model points to the harness's key count."""
    a = json.loads(json.dumps(a))

    def pad(p):
        p["tg"] = (concretise.fix_json(p["tg"]) + [concretise.MISSING] * NTK)[:NTK]
        p["fd"] = (concretise.fix_json(p["fd"]) + [concretise.MISSING] * NFK)[:NFK]
        return p
    if "p" in a:
        pad(a["p"])
    if "ps" in a:
        a["ps"] = [pad(p) for p in concretise.fix_json(a["ps"])]
    if "u" in a:
        u = a["u"]
        for k in ("tgv", "fdv", "utg", "ufd"):
            u[k] = concretise.fix_json(u[k])
        if u["tgk"]:
            u["tgv"] = (u["tgv"] + [concretise.MISSING] * NTK)[:NTK]
        if u["fdk"]:
            u["fdv"] = (u["fdv"] + [concretise.MISSING] * NFK)[:NFK]
    if "keys" in a:
        a["keys"] = concretise.fix_json(a["keys"])
    return a


def path_jobs(paths, prefix, battery):
    """each TLC path in the four configurations; every fifth path with CSV-hostile strings"""
    jobs = []
    for i, ops in enumerate(paths):
        hostile = i % 5 == 4 and not any(_uses_regex(a) for a in ops)
        for kind, ai in traces.CONFIGS:
            jobs.append(("%s%d-%s%d" % (prefix, i, kind, ai), kind, ai, ops, battery if not hostile else [], NTK, NFK,
                         {"theme": "csv-hostile"} if hostile else {}))
    return jobs


def _uses_regex(a):
    def rq(q):
        if q["k"] in ("not", "and", "or"):
            return rq(q["a"]) or ("b" in q and rq(q["b"]))
        return q.get("op") in ("matches", "search")
    return "q" in a and rq(a["q"])


def describe_failure(tr, err):
    ev = traces.failing_event(tr, err)
    step = err["step"]
    return ("%s storage, auto_index=%d, after %d call(s): %s -> clause '%s' fails; logged exc=%r res=%s; spec expected %s"
            % (tr["kind"], tr["auto_index"], step - 1, json.dumps(ev["a"])[:400], err["clause"], ev["exc"],
               json.dumps(ev["res"])[:200], json.dumps(err["expected"])[:300]))


def failure_tags(tr, err):
    ev = traces.failing_event(tr, err)
    a = ev["a"]
    tags = {"op:" + a["op"], "clause:" + err["clause"], "kind:" + tr["kind"], "ai:%d" % tr["auto_index"]}
    if a.get("via") == "handle":
        tags.add("via:handle")
    if "q" in a:
        tags |= {"q:" + t for t in concretise.query_tags(a["q"])}
    if ev["exc"]:
        tags.add("exc:" + ev["exc"])
    return tags


def op_hist(recorded):
    """how often each operation kind was executed and judged (vacuity guard: an operation kind that never
    occurs means the clauses about it were never exercised)"""
    h = {}
    for t in recorded:
        for e in t["events"]:
            k = e["a"]["op"] + ("@handle" if e["a"].get("via") == "handle" else "") + ("!raised" if e["exc"] else "")
            h[k] = h.get(k, 0) + 1
    return dict(sorted(h.items()))


def minimise(kind, ai, ops, opts, battery, clause, pid, rounds=8):
    """Delta-debugging of a failing history (only ever runs when a violation was found): drop operations while the
    same clause, owned by the same property, still fails.  All candidates of a round are judged by ONE batch of TLC
    runs, so a round costs a few seconds.  Returns the shortest failing operation list found."""
    def still_fails(tr, verdict):
        for err in traces.errors(verdict):
            if err["clause"] != clause:
                continue
            ev = traces.failing_event(tr, err)
            own = traces.owner(ev["a"], err["clause"], ev["exc"])
            if own == "C10" and pid != "C10":
                own = traces.owner({k: v for k, v in ev["a"].items() if k != "via"}, err["clause"], ev["exc"])
            if own == pid:
                return err["step"]
        return 0
    best = list(ops)
    for _ in range(rounds):
        cands = []
        n = len(best)
        chunk = max(1, n // 8)
        for i in range(0, n - 1, chunk):                     # never drop the last (failing) call
            c = best[:i] + best[min(n - 1, i + chunk):]
            if len(c) < n:
                cands.append(c)
        if chunk > 1:
            cands += [best[:i] + best[i + 1:] for i in range(n - 1)]
        if not cands:
            break
        jobs = [("min%d" % j, kind, ai, c, battery, NTK, NFK, opts) for j, c in enumerate(cands)]
        rec = traces.record_all(jobs, nproc=8)
        ver, _ = traces.judge(rec)
        good = []
        for t in rec:
            step = still_fails(t, ver[t["id"]])
            if step:
                good.append([e["a"] for e in t["events"][:step]])
        if not good:
            break
        shortest = min(good, key=len)
        if len(shortest) >= len(best):
            break
        best = shortest
    return best


def run(pid, level="model_checking"):
    rep = common.Report(pid, level)
    common.use_repo()
    th = concretise.Theme()
    th.check()
    thorough = rep.tier == "thorough"
    st, tr_, cmd = design_check(thorough)
    if pid == "C03":
        # the update vocabulary closes the point universe under ApplyUpdate: exhaustive for single-point databases,
        # random behaviours (depth 12) for up to three points; UpdateExact is asserted on every transition
        for ml, sim in ((1, None), (3, "num=%d" % (1500 if thorough else 300))):
            cfg = tlc.cfg_text(init="MCInit", next_="MCNext",
                               constants={"Mode": "check", "Alpha": "update", "MaxLen": ml, "Depth": 0, "AutoIndex": True},
                               invariants=MC_INVS, constraints=["ValueBound"])
            r = tlc.run_tlc("MC_TinyFlux", cfg, workers=16 if sim is None else 8, timeout=900, simulate=sim, depth=12 if sim else None,
                            seed=rep.seed + 3 if sim else None)
            if r.violated or any("ACTION-PROPERTY" in l for l in r.stdout.splitlines()):
                raise tlc.MachineryError("the bounded design violates %s over the update alphabet:\n%s" % (r.violated or "an action property", r.tail(40)))
            tlc.require_clean(r, "MC_TinyFlux update alphabet")
            st += r.distinct
            tr_ += r.states
    # ---- code -> spec: random histories
    n_rand = 8000 if thorough else 800
    jobs = random_jobs(pid, n_rand, rep.seed, [10, 20, 30, 45] if not thorough else [15, 30, 50, 80])
    # ---- spec -> code: TLC paths
    bat = gen.Gen(rep.seed + 5, ntk=NTK, nfk=NFK).battery(4)
    alpha = {"C03": "update", "C02": "remove", "C10": "meas", "C11": "fail"}.get(pid, "index")
    depth = {"index": 4 if thorough else 3, "update": 2, "remove": 3 if thorough else 2, "meas": 3 if thorough else 2, "fail": 3}[alpha]
    paths, rp = export_paths(alpha, depth, 4)
    if len(paths) > (25000 if thorough else 3000):
        rnd = random.Random(rep.seed)
        paths = rnd.sample(paths, 25000 if thorough else 3000)
    sims, rs = export_paths(alpha, 10 if thorough else 8, 5, simulate="num=%d" % (800 if thorough else 80),
                            sim_depth=(11 if thorough else 9), seed=rep.seed + 1)
    jobs += path_jobs(paths, "p", bat) + path_jobs(sims, "s", bat)
    if pid == "C11":
        # wrongly typed arguments (the matrix of C14) as failing calls: the state after the raise is what C11 is about
        bad_paths, _ = export_paths("bad", 6, 4)
        keep = [p for p in bad_paths if p[-3]["entry"] in ("insert_meas", "insert_meas_stored", "insert_meas_pos", "handle_insert", "handle_insert_multiple", "update_static", "update_callable",
                                                           "update_callable_inplace", "handle_update_callable")]
        rnd = random.Random(rep.seed + 11)
        if len(keep) > (3000 if thorough else 500):
            keep = rnd.sample(keep, 3000 if thorough else 500)
        jobs += path_jobs(keep, "b", [])
    own_all = set()
    if pid in ("C02", "C03"):
        # flush_on_insert=False: the rewrite of remove / update must not lose buffered rows; contents cannot be projected at
        # every step there, so each write is followed by all() and the history ends with close + file comparison
        f = FOCUS[pid]
        for i in range(800 if thorough else 60):
            g = gen.Gen(rep.seed * 31337 + i, ntk=NTK, nfk=NFK, focus=dict(f["weights"], reopen=0), handles=0.1)
            ops = []
            for a in g.history(g.r.choice([8, 14, 20]), p_read=0.2):
                ops.append(a)
                if a["op"] in ("remove", "drop_measurement", "update", "update_all", "__repeat__"):
                    ops.append({"op": "all", "m": -1, "sorted": 0})
            ops.append({"op": "reopen"})
            jid = "f%d" % i
            own_all.add(jid)
            jobs.append((jid, "csv", i % 2, ops, [], NTK, NFK, {"nostore": True, "csv": {"flush_on_insert": False}}))
    recorded = traces.record_all(jobs)
    recorded = recorded + traces.prefill_traces(recorded)
    verdicts, js = traces.judge(recorded)
    byid = {t["id"]: t for t in recorded}
    job_battery = {j[0]: j[4] for j in jobs}
    job_opts = {j[0]: (j[7] if len(j) > 7 else {}) for j in jobs}
    cut = {}
    n_events = sum(len(t["events"]) for t in recorded)
    for tid, v in verdicts.items():
        tr = byid[tid]
        for err in traces.errors(v):
            ev = traces.failing_event(tr, err)
            own = traces.owner(ev["a"], err["clause"], ev["exc"])
            if own == "C10" and pid != "C10":
                # an operation through a handle is also an operation of its own kind
                own = traces.owner({k: v for k, v in ev["a"].items() if k != "via"}, err["clause"], ev["exc"])
            if pid == "C11" and own == "C14" and err["clause"] != "raises":
                own = "C11"                     # contents / index after a call that raised on a wrongly typed argument
            if tid in own_all and err["clause"] in ("result", "file", "raises"):
                own = pid                       # in these traces every read follows a remove / update of this property
            if own != pid:
                cut[own] = cut.get(own, 0) + 1
                continue
            step = err["step"]
            rep.violation(describe_failure(tr, err),
                          {"kind": tr["kind"], "auto_index": tr["auto_index"], "ops": [e["a"] for e in tr["events"][:step]],
                           "battery": job_battery.get(tid, []), "clause": err["clause"], "expected": err["expected"],
                           "opts": job_opts.get(tid, {})},
                          tags=failure_tags(tr, err))
            break                     # one report per trace: its first failure owned by this property
    n_fault = 0
    if pid == "C06":
        # error paths: an OSError at every I/O call of the operations of a few histories; afterwards a valid
        # index must still mirror the object's own storage (clause fault_index of Trace_TinyFlux)
        import c13
        fjobs = c13.fault_jobs(random.Random(rep.seed * 77 + 6), 120 if thorough else 8, thorough, per_op=15)
        frec = traces.record_faults(fjobs)
        fver, fjs = traces.judge(frec)
        n_fault = len(frec)
        fby = {t["id"]: t for t in frec}
        for tid, v in fver.items():
            for err in traces.errors(v):
                if err["clause"] != "fault_index":
                    cut["C13"] = cut.get("C13", 0) + 1
                    continue
                ev = traces.failing_event(fby[tid], err)
                rep.violation("after an OSError injected at I/O call %s of %s the index is valid but does not mirror storage: expected %s"
                              % (ev["fault"]["at"], json.dumps(ev["a"])[:300], json.dumps(err["expected"])[:300]),
                              {"kind": "csv", "auto_index": fby[tid]["auto_index"], "ops": [e["a"] for e in fby[tid]["events"]], "fault_at": ev["fault"]["at"]},
                              tags={"clause:fault_index", "op:" + ev["a"]["op"], "at:" + ev["fault"]["at"]})
                break
    n_suite = 0
    if pid in ("C01", "C02", "C03", "C06", "C07"):
        # the repository's own test suite, recorded by the pytest plug-in and judged by the same trace specification
        import suite
        allow = suite.allowlist().get("accepted_on_clean_tree", {})
        strs, _, _ = suite.record()
        strs = [t for t in strs if t["id"] in allow]
        if strs:
            sver, sjs = traces.judge(strs)
            n_suite = len(strs)
            for t in strs:
                for err in traces.errors(sver[t["id"]]):
                    ev = traces.failing_event(t, err)
                    op = ev["a"]["op"]
                    own = "C06" if err["clause"] in ("index", "valid") else \
                        ("C03" if op == "update_opaque" else traces.owner(ev["a"], err["clause"], ev["exc"]))
                    if own != pid:
                        cut[own] = cut.get(own, 0) + 1
                        continue
                    rep.violation("test %s, call %d (%s): clause '%s' fails; logged exc=%r res=%s; spec expected %s"
                                  % (t["id"], err["step"], op, err["clause"], ev["exc"], json.dumps(ev["res"])[:200], json.dumps(err["expected"])[:200]),
                                  {"suite_trace": t["id"], "step": err["step"], "clause": err["clause"]},
                                  tags={"suite", "op:" + op, "clause:" + err["clause"]})
                    break
    ok = sum(1 for v in verdicts.values() if v["ok"])
    rep.coverage = {
        "states": st + js["states"] + rp.distinct,
        "transitions": tr_ + js["transitions"] + rp.states,
        "traces_validated_against_impl": len(recorded),
        "evaluations": n_events,
        "distinct_nontrivial": len({json.dumps([e["a"] for e in t["events"]], sort_keys=True) for t in recorded}),
        "rule": "design: exhaustive TLC exploration of MC_TinyFlux (6 point templates, ~75 queries, 4 measurement filters, MaxLen 3-4, both auto_index values); "
                "traces: %d seeded random histories (x4 configurations round-robin) + every TLC path of depth %d over the '%s' alphabet and %d simulated behaviours, "
                "each in all 4 configurations; every call judged by TLC (raises/result/store/valid/index clauses); distinct = distinct operation sequences"
                % (n_rand, depth, alpha, len(sims)),
        "samples": [{"config": "%s/auto_index=%d" % (t["kind"], t["auto_index"]), "ops": [e["a"]["op"] for e in t["events"]][:30]}
                    for t in recorded[:: max(1, len(recorded) // 3)][:3]],
        "traces_accepted": ok,
        "failures_owned_by_other_properties": cut,
        "tlc_paths": len(paths), "tlc_simulated": len(sims), "random_histories": n_rand, "events_judged": n_events,
        "operations_executed_by_kind": op_hist(recorded), "fault_runs_with_index_observation": n_fault,
        "test_suite_traces_judged": n_suite,
        "design_states": st, "design_transitions": tr_, "checker_cmd": cmd,
    }
    if rep.violations:
        # shrink the shortest representative of (up to three) classes so that the replay file is readable
        classes = {}
        for v in rep.violations:
            if "ops" in v["case"]:
                classes.setdefault(tuple(v["tags"]), []).append(v)
        for cls, vs in sorted(classes.items(), key=lambda kv: -len(kv[1]))[:3]:
            v = min(vs, key=lambda x: len(x["case"]["ops"]))
            c = v["case"]
            try:
                small = minimise(c["kind"], c["auto_index"], c["ops"], {k: x for k, x in c.get("opts", {}).items() if k != "prefill_points"},
                                 c.get("battery", []), c["clause"], pid)
            except Exception as e:          # minimisation is a convenience; never let it hide the violation
                small = c["ops"]
            if len(small) < len(c["ops"]):
                c["ops_before_minimisation"] = len(c["ops"])
                c["ops"] = small
                v["what"] = "[minimised to %d call(s)] " % len(small) + v["what"]
    rep.assumptions = ["values are ranks mapped order-isomorphically to real values by the plain theme (verified at start-up)",
                       "user callables are the fixed total functions of the theme",
                       "the per-step projection reads CSV contents through a separate descriptor with an independent row decoder"]
    return rep.finish()


def replay(repj):
    """Re-execute a replay file against the working tree and ask TLC again."""
    common.use_repo()
    c = repj["case"]
    if "suite_trace" in c:
        import suite
        strs = [t for t in suite.record()[0] if t["id"] == c["suite_trace"]]
        if not strs:
            print("replay: test-suite trace %s was not recorded" % c["suite_trace"])
            return 2
        sv, _ = traces.judge(strs, workers=1)
        errs = traces.errors(sv[strs[0]["id"]])
        for err in errs:
            print("replay: test %s, call %d: clause '%s' fails; spec expected %s" % (c["suite_trace"], err["step"], err["clause"], json.dumps(err["expected"])[:300]))
        return 1 if errs else 0
    if "fault_at" in c:
        print("replay: fault-injection case (re-run ./check %s): %s" % (repj["property"], json.dumps(c)[:1500]))
        return 1
    job = ("replay", c["kind"], c["auto_index"], c["ops"], c.get("battery", []), NTK, NFK, c.get("opts", {}))
    rec = traces.record_all([job], nproc=1)
    v, _ = traces.judge(rec, workers=1)
    vv = v["replay"]
    if vv["ok"]:
        print("replay: trace accepted by the specification (%d steps)" % vv["steps"])
        return 0
    for err in traces.errors(vv):
        print("replay: " + describe_failure(rec[0], err))
    return 1
