"""Shared engine of the storage properties C04, C12, C15, C16 (CSV storage).

Histories are executed on the real package with the run-time I/O proxies of
harness/ioproxy.py installed in tinyflux.storages; every API call is logged with
its API-level observations AND its I/O-level observations (kernel-visible bytes of
the file at every I/O boundary decoded by the independent reader, calls made on
the primary file, bytes before/after, files left behind, contents seen by a fresh
read-only TinyFlux).  TLC judges each event against Trace_TinyFlux.tla:

  crash      C12  every boundary snapshot decodes to old / new (insert_multiple: old + prefix)
  file       C04  after the call the file alone (independent reader, and reopen) = contents
  append     C16  inserts only seek / write at end / flush / fsync / truncate-at-end; old bytes stay a prefix; no reads
  cost       C16  I/O calls per inserted point bounded, and equal for small and large databases
  unchanged  C15  reads, no-op writes and forbidden writes leave the bytes unchanged
  tmp        C15  nothing is left behind in the temp / database directory
The design of the rewrite itself is model-checked in spec/CsvIO.tla (crash between
any two effects; copy-based vs rename-based swap).
"""
import csv
import json
import random

import common
import concretise
import core
import gen
import tlc
import traces

OWNER = {"crash": "C12", "file": "C04", "append": "C16", "cost": "C16", "unchanged": "C15", "tmp": "C15"}

ENCODINGS = [None, "utf-8", "utf-16", "latin-1"]
DIALECTS = [{}, {"delimiter": ";"}, {"quoting": csv.QUOTE_ALL}, {"quotechar": "'"}]


def c04_cells(thorough, rng):
    cells = [(f, e, d) for f in (True, False) for e in range(4) for d in range(4)]
    if thorough:
        return cells
    rng.shuffle(cells)
    # covering array: every pair of values appears
    chosen, need = [], set()
    for f in (True, False):
        for e in range(4):
            need.add(("fe", f, e))
        for d in range(4):
            need.add(("fd", f, d))
    for e in range(4):
        for d in range(4):
            need.add(("ed", e, d))
    for c in cells:
        pairs = {("fe", c[0], c[1]), ("fd", c[0], c[2]), ("ed", c[1], c[2])}
        if pairs & need:
            chosen.append(c)
            need -= pairs
    return chosen


def prefill_points(n, g):
    pts = []
    for i in range(n):
        p = g.point(t=min(gen.NT - 1, i * gen.NT // max(1, n)))
        pts.append(p)
    return pts


def job_opts(jobs, tid):
    return next(j for j in jobs if j[0] == tid)[7]


def jobs_for(pid, rep):
    thorough = rep.tier == "thorough"
    rng = random.Random(rep.seed * 613 + int(pid[1:]))
    jobs = []
    n = 0

    def add(ops, ai, opts, battery=()):
        nonlocal n
        if n % 4 == 3 and "theme" not in opts and pid != "C04":
            # a quarter of the histories use value tables drawn at random (themes._random_tables)
            opts = dict(opts, theme="random:%d" % (rep.seed * 100000 + n))
            gen.deregex(ops)
            battery = gen.deregex(list(battery))
        jobs.append(("%s-%d" % (pid, n), "csv", ai, ops, list(battery), core.NTK, core.NFK, opts))
        n += 1

    if pid == "C04":
        per_cell = 60 if thorough else 8
        for (flush, e, dl) in c04_cells(thorough, rng):
            enc = ENCODINGS[e]
            theme = "latin" if enc == "latin-1" else "csv-hostile"
            for i in range(per_cell):
                g = gen.Gen(rng.randrange(1 << 30), focus={"insert": 7, "insert_multiple": 2, "remove": 3, "update": 3, "reopen": 2 if flush else 3, "fail": 0.1},
                            handles=0.1, regex=False)
                ops = g.history(g.r.choice([8, 14, 22]), p_read=0.35)
                for a in ops:
                    if a["op"] == "insert" and g.r.random() < 0.4:
                        a["compact"] = 1
                if not flush:
                    ops.append({"op": "reopen"})
                csvo = dict(DIALECTS[dl])
                if enc:
                    csvo["encoding"] = enc
                if not flush:
                    csvo["flush_on_insert"] = False
                add(ops, i % 2, {"io": flush, "csv": csvo, "theme": theme, "nostore": not flush})
        # default configuration, many write-heavy histories (batches, removes by time, updates)
        for i in range(400 if thorough else 80):
            g = gen.Gen(rng.randrange(1 << 30), focus={"insert": 5, "insert_multiple": 4, "remove": 5, "update": 3, "drop": 1, "repeat": 0.3}, handles=0.1)
            add(g.history(g.r.choice([10, 16, 24]), p_read=0.25), i % 4 != 3, {"io": True})
        for i in range(200 if thorough else 40):
            g = gen.Gen(rng.randrange(1 << 30), handles=0.0)
            add(g.batch_scenario() + [{"op": "reopen"}], i % 5 != 4, {"io": True})
        # access mode "w+": the file is truncated when opened (Python's meaning of the mode), never afterwards
        for i in range(40 if thorough else 10):
            g = gen.Gen(rng.randrange(1 << 30), focus={"insert": 6, "remove": 4, "update": 4, "drop": 1, "repeat": 0.3}, handles=0.1)
            add(g.history(g.r.choice([8, 14]), p_read=0.3), i % 2, {"io": True, "mode": "w+", "prefill": True,
                                                                     "prefill_points": prefill_points(g.r.choice([0, 2]), g)})
        # the database path is a symbolic link: the file behind the link must hold the contents
        for i in range(24 if thorough else 6):
            g = gen.Gen(rng.randrange(1 << 30), focus={"insert": 6, "remove": 4, "update": 4, "drop": 1, "repeat": 0.3}, handles=0.1)
            add(g.history(g.r.choice([8, 14]), p_read=0.3), i % 2, {"io": True, "symlink": True})
        # the database file has a second hard link (a snapshot made with ln / cp -l): rewrites must not depend on the link count
        for i in range(16 if thorough else 4):
            g = gen.Gen(rng.randrange(1 << 30), focus={"insert": 6, "remove": 4, "update": 4, "drop": 1, "repeat": 0.3}, handles=0.1)
            add(g.history(g.r.choice([8, 14]), p_read=0.3), i % 2, {"io": True, "hardlink": True})
        # batches of several hundred points in one call (list / iterator); contents read back from the file decide
        for i in range(4 if thorough else 2):
            g = gen.Gen(rng.randrange(1 << 30), handles=0.0)
            n1 = 510 + 13 * i
            ops = [{"op": "insert_multiple", "ps": [g.point(t=min(gen.NT - 2, k * gen.NT // n1)) for k in range(n1)], "m": concretise.NONE, "bad": 0},
                   {"op": "len", "m": concretise.NONE},
                   {"op": "insert_multiple", "ps": [g.point(t=gen.NT - 1) for k in range(260 + i)], "m": concretise.NONE, "bad": 0},
                   {"op": "reopen"},
                   {"op": "len", "m": concretise.NONE}]
            add(ops, i % 2, {})
        # large files: early-exit reads before appends (file position left mid-file, > 8 KiB)
        for i in range(6 if thorough else 2):
            g = gen.Gen(rng.randrange(1 << 30), focus={"insert": 8, "remove": 1, "update": 1}, handles=0.0)
            ops = []
            for _ in range(6):
                ops.append({"op": "get", "q": g.atom(), "m": concretise.NONE})
                ops.append({"op": "insert", "p": g.point(), "m": concretise.NONE, "compact": 0})
            flush = i % 2 == 0
            if not flush:
                ops.append({"op": "reopen"})
            add(ops, i % 2, {"io": flush, "nostore": not flush, "csv": {} if flush else {"flush_on_insert": False},
                             "prefill": True, "prefill_points": prefill_points(260, g)})
    elif pid in ("C12", "C16"):
        nh = 2000 if thorough else 80
        focus = {"insert": 6, "insert_multiple": 3, "remove": 4, "update": 4, "update_all": 1, "drop": 2, "remove_all": 1, "fail": 0.1, "bad": 0.2} \
            if pid == "C12" else {"insert": 12, "insert_multiple": 5, "remove": 1, "update": 1, "bad": 0.1}
        for i in range(nh):
            g = gen.Gen(rng.randrange(1 << 30), focus=focus, handles=0.1)
            add(g.history(g.r.choice([10, 18, 28]), p_read=0.3), i % 2, {"io": True})
        # large databases: reads that stop early, then appends / rewrites
        for i, size in enumerate([120, 300] if not thorough else [120, 300, 300, 1000, 3000]):
            g = gen.Gen(rng.randrange(1 << 30), focus=focus, handles=0.0)
            ops = []
            for _ in range(4):
                ops.append({"op": "get", "q": g.atom(), "m": concretise.NONE})
                ops.append({"op": "insert", "p": g.point(), "m": concretise.NONE, "compact": 0})
                ops.append({"op": "contains", "q": g.atom(), "m": concretise.NONE})
                ops.append({"op": "insert_multiple", "ps": [g.point(), g.point()], "m": concretise.NONE, "bad": 0})
            # an update whose callable fails part-way (the scan is aborted), directly followed by inserts
            ops.append({"op": "update", "q": {"k": "meas", "key": 0, "key2": 0, "mf": 0, "op": "noop", "v": 0, "tf": 0}, "m": concretise.NONE,
                        "u": {"tk": 0, "tv": 0, "mk": 0, "mv": 0, "tgk": 1, "tgv": [2, -2, -2], "fdk": 0, "fdv": [], "utg": [], "ufd": []},
                        "fail": size // 2})
            ops.append({"op": "insert", "p": g.point(), "m": concretise.NONE, "compact": 0})
            ops.append({"op": "insert", "p": g.point(), "m": concretise.NONE, "compact": 0})
            if pid == "C12":
                ops.append({"op": "remove", "q": g.atom(), "m": concretise.NONE})
            add(ops, i % 2, {"io": True, "prefill": True, "prefill_points": prefill_points(size, g)})
        if pid == "C16":
            # a batch whose producer reads the (large) database between two elements: the file position is left mid-file
            # while the insert is under way.  No I/O proxies here (the producer's reads are not the insert's); the contents decide.
            for i in range(6 if thorough else 2):
                g = gen.Gen(rng.randrange(1 << 30), focus=focus, handles=0.0)
                ops = []
                for _ in range(3):
                    ops.append({"op": "insert_multiple", "ps": [g.point() for _ in range(g.r.choice([2, 3]))], "m": concretise.NONE, "bad": 0, "producer": 1})
                    ops.append({"op": "count", "q": g.atom(), "m": concretise.NONE})
                ops.append({"op": "reopen"})
                add(ops, i % 2, {"prefill": True, "prefill_points": prefill_points(220 + 40 * i, g)})
            # flush_on_insert=False, a rewrite that keeps some rows (partial remove, effective update) DIRECTLY followed by inserts
            for i in range(12 if thorough else 4):
                g = gen.Gen(rng.randrange(1 << 30), focus=focus, handles=0.0)
                ops, t = [], 0
                for _ in range(g.r.choice([3, 4, 5])):
                    ops.append({"op": "insert", "p": g.point(t), "m": concretise.NONE, "compact": 0})
                    t += 1
                for rnd in range(2):
                    tq = {"k": "time", "key": 0, "key2": 0, "mf": 0, "op": "eq", "v": g.r.randrange(t), "tf": 0}
                    if (i + rnd) % 2:
                        ops.append({"op": "remove", "q": tq, "m": concretise.NONE})
                    else:
                        ops.append({"op": "update", "q": tq, "m": concretise.NONE, "fail": 0,
                                    "u": {"tk": 0, "tv": 0, "mk": 1, "mv": 3, "tgk": 0, "tgv": [], "fdk": 0, "fdv": [], "utg": [], "ufd": []}})
                    ops.append({"op": "insert", "p": g.point(t), "m": concretise.NONE, "compact": 0})
                    ops.append({"op": "insert_multiple", "ps": [g.point(t + 1), g.point(t + 2)], "m": concretise.NONE, "bad": 0})
                    t += 3
                ops.append({"op": "reopen"})
                add(ops, i % 2, {"io": True, "nostore": True, "csv": {"flush_on_insert": False}})
            # flush_on_insert=False: appends must still land at the end of what was written before
            for i in range(60 if thorough else 12):
                rewrites = 3 if i % 2 else 0      # every other history also rewrites the file (remove / update) between the inserts
                g = gen.Gen(rng.randrange(1 << 30), focus={"insert": 12, "insert_multiple": 4, "remove": rewrites, "update": rewrites, "update_all": 0, "drop": 0, "remove_all": 0, "reindex": 0, "reopen": 0}, handles=0.0)
                ops = g.history(14, p_read=0.25 if not rewrites else 0.1) + [{"op": "reopen"}]
                add(ops, (i // 2) % 2, {"io": True, "nostore": True, "csv": {"flush_on_insert": False}})
        if pid == "C12":
            # other csv dialects and encodings, CSV-hostile text: the rewritten file must be in the database's own format at every boundary
            for i in range(60 if thorough else 12):
                g = gen.Gen(rng.randrange(1 << 30), focus=focus, handles=0.0, regex=False)
                csvo = dict(DIALECTS[1 + i % 3])
                if i % 4 == 3:
                    csvo["encoding"] = "utf-16"
                add(g.history(g.r.choice([8, 14]), p_read=0.2), i % 2, {"io": True, "csv": csvo, "theme": "csv-hostile"})
            # the database path is a symbolic link
            for i in range(30 if thorough else 8):
                g = gen.Gen(rng.randrange(1 << 30), focus=focus, handles=0.0)
                add(g.history(g.r.choice([8, 14]), p_read=0.2), i % 2, {"io": True, "symlink": True})
            # the database file has a second hard link
            for i in range(24 if thorough else 6):
                g = gen.Gen(rng.randrange(1 << 30), focus=focus, handles=0.0)
                add(g.history(g.r.choice([8, 14]), p_read=0.2), i % 2, {"io": True, "hardlink": True})
            # access mode "w+": the file is emptied when the database is opened, never by a rewrite later on
            for i in range(30 if thorough else 8):
                g = gen.Gen(rng.randrange(1 << 30), focus=focus, handles=0.0)
                add(g.history(g.r.choice([8, 14]), p_read=0.2), i % 2, {"io": True, "mode": "w+", "prefill": True,
                                                                        "prefill_points": prefill_points(g.r.choice([0, 2]), g)})
            # append-only access modes: every stored point must be on file when the insert returns
            for i in range(30 if thorough else 8):
                g = gen.Gen(rng.randrange(1 << 30), focus={"insert": 10, "insert_multiple": 4, "remove": 0, "update": 0, "update_all": 0, "drop": 0, "remove_all": 0, "reindex": 0}, handles=0.0)
                ops = [a for a in g.history(12, p_read=0.0) if a["op"] in ("insert", "insert_multiple")]
                add(ops, 0, {"io": True, "mode": "a", "prefill": True, "prefill_points": prefill_points(g.r.choice([0, 3]), g)})
    elif pid == "C15":
        nh = 4000 if thorough else 240
        for i in range(nh):
            g = gen.Gen(rng.randrange(1 << 30), focus={"insert": 5, "remove": 5, "update": 4, "update_all": 1, "drop": 2, "reindex": 1, "fail": 0.3, "bad": 0.3, "repeat": 0.6}, handles=0.2)
            add(g.history(g.r.choice([10, 18, 28]), p_read=0.55), i % 2, {"io": True})
        # updates to the value a point already holds, given in the number's other representation (0 / -0.0, 1 / 1.0), static and
        # through callables, directly and as an immediate repeat: equal values, so nothing may be written
        for i in range(200 if thorough else 16):
            g = gen.Gen(rng.randrange(1 << 30), handles=0.0)
            ops, t = [], 0
            for _ in range(g.r.choice([2, 3, 4])):
                p = g.point(t)
                p["fd"][0] = g.r.choice([2, 3, 2, 0])       # plain theme: ranks 2 and 3 are the numbers 0 and 1
                ops.append({"op": "insert", "p": p, "m": concretise.NONE, "compact": 0})
                t += 1
            for rnd in range(3):
                u = {"tk": 0, "tv": 0, "mk": 0, "mv": 0, "tgk": 0, "tgv": [], "fdk": g.r.choice([1, 2, 4]), "fdv": [g.r.choice([2, 3]), -2, -2],
                     "utg": [], "ufd": [], "alt": g.r.randrange(2)}
                tq = {"k": "field", "key": 1, "key2": 0, "mf": 0, "op": g.r.choice(["eq", "le", "ge"]), "v": u["fdv"][0], "tf": 0}
                ops.append({"op": "update", "q": tq, "m": concretise.NONE, "u": u, "fail": 0})
                ops.append({"op": "__repeat__"})
                if rnd == 1:
                    ops.append({"op": "update_all", "u": dict(u, alt=1 - u["alt"]), "fail": 0})
                    ops.append({"op": "update_all", "u": u, "fail": 0})
            add(ops, i % 2, {"io": True})
        # unsetting a key that exists only as the OTHER kind (a tag named like a field, a field named like a tag), through the
        # database and through a handle: nothing to unset, so nothing may be written
        for i in range(60 if thorough else 8):
            g = gen.Gen(rng.randrange(1 << 30), handles=0.0)
            ops, t = [], 0
            tag_only = i % 2 == 0
            for _ in range(g.r.choice([2, 3])):
                p = g.point(t)
                p["m"] = 1
                p["tg"][0], p["fd"][0] = (g.r.randrange(6), -2) if tag_only else (-2, g.r.randrange(6))
                # (compact key prefixes: a needless rewrite would re-serialise these rows with the long prefixes - visible in the bytes)
                ops.append({"op": "insert", "p": p, "m": concretise.NONE, "compact": 1 if i % 4 in (1, 2) else 0})
                t += 1
            u = {"tk": 0, "tv": 0, "mk": 0, "mv": 0, "tgk": 0, "tgv": [], "fdk": 0, "fdv": [], "utg": [] if tag_only else [1], "ufd": [1] if tag_only else []}
            NOOP = {"k": "meas", "key": 0, "key2": 0, "mf": 0, "op": "noop", "v": 0, "tf": 0}
            ops.append({"op": "update", "q": NOOP, "m": 1, "u": u, "fail": 0, "via": "handle"})
            ops.append({"op": "update_all", "m": 1, "u": u, "fail": 0, "via": "handle"})
            # setting a key and unsetting it in the same call, on points that do not have it: the steps cancel, nothing changes
            # (third key: no point of these histories carries it, neither as a tag nor as a field)
            for p in [a["p"] for a in ops if a["op"] == "insert"]:
                p["tg"][2], p["fd"][2] = -2, -2
            u2 = dict(u, utg=[3], ufd=[], tgk=g.r.choice([1, 2]), tgv=[-2, -2, g.r.randrange(6)]) if i % 4 < 2 else \
                dict(u, utg=[], ufd=[3], fdk=g.r.choice([1, 2]), fdv=[-2, -2, g.r.randrange(6)])
            ops.append({"op": "update", "q": NOOP, "m": concretise.NONE, "u": u2, "fail": 0})
            ops.append({"op": "update_all", "m": 1, "u": u2, "fail": 0, "via": "handle"})
            ops.append({"op": "update", "q": NOOP, "m": concretise.NONE, "u": u, "fail": 0})
            ops.append({"op": "update_all", "u": u, "fail": 0})
            ops.append({"op": "all", "m": concretise.NONE, "sorted": 0})
            add(ops, i % 2, {"io": True})
        # updates of the time to the instant a point already has - given in another UTC offset or as a naive local datetime
        # (time-edge theme), static and through a callable, on rows with compact and long prefixes: the same instant, so
        # nothing changes, 0 is reported and nothing may be written
        for i in range(80 if thorough else 10):
            g = gen.Gen(rng.randrange(1 << 30), handles=0.0)
            ops = []
            ranks = g.r.sample(range(0, 11), g.r.choice([3, 4, 5]))
            for t in sorted(ranks) if i % 3 else ranks:
                pt = g.point(t)
                pt["t"] = t
                ops.append({"op": "insert", "p": pt, "m": concretise.NONE, "compact": 1 if i % 4 in (1, 2) else 0})
            for t in ranks:
                tq = {"k": "time", "key": 0, "key2": 0, "mf": 0, "op": "eq", "v": t, "tf": 0}
                u = {"tk": 1, "tv": t, "mk": 0, "mv": 0, "tgk": 0, "tgv": [], "fdk": 0, "fdv": [], "utg": [], "ufd": []}
                ops.append({"op": "update", "q": tq, "m": concretise.NONE, "u": u, "fail": 0})
                ops.append({"op": "update", "q": tq, "m": concretise.NONE, "u": dict(u, tk=2, tv=0), "fail": 0})
            ops.append({"op": "update_all", "u": {"tk": 2, "tv": 0, "mk": 0, "mv": 0, "tgk": 0, "tgv": [], "fdk": 0, "fdv": [], "utg": [], "ufd": []}, "fail": 0})
            ops.append({"op": "all", "m": concretise.NONE, "sorted": 0})
            add(ops, i % 2, {"io": True, "theme": "time-edge"})
        # access modes
        for i in range(600 if thorough else 24):
            g = gen.Gen(rng.randrange(1 << 30), focus={"insert": 3, "remove": 3, "update": 3, "update_all": 1, "drop": 2, "remove_all": 2, "reindex": 1}, handles=0.2)
            mode = ["r", "a", "w+", "r+"][i % 4]
            ai = 0 if mode == "a" else i % 2
            add(g.history(g.r.choice([8, 14]), p_read=0.4), ai,
                {"io": True, "mode": mode, "prefill": True, "prefill_points": prefill_points(g.r.choice([0, 3, 5]), g)})
    return jobs


def real_kills(recorded, jobs, n, rng):
    """C12: re-validate sampled I/O boundaries by REALLY killing a child process there (os._exit right after
    the call took effect).  Returns (extra traces for TLC, number of kills, mismatches with the simulated snapshot)."""
    import os
    import shutil
    import subprocess
    import driver
    import concretise
    cands = []
    byid = {j[0]: j for j in jobs}
    for t in recorded:
        job = byid[t["id"]]
        if job[7].get("prefill") or job[7].get("mode") or job[7].get("symlink") or job[7].get("hardlink"):
            continue
        for j, e in enumerate(t["events"]):
            if "io" in e and e["io"]["counted"] and not e["exc"] and e["a"]["op"] not in traces.READ_C01 | traces.READ_C07:
                for k in range(len(e["io"]["counted"])):
                    cands.append((t, j, k))
    rng.shuffle(cands)
    out, kills, mism = [], 0, []
    scratch = tlc.mkscratch("kill-")
    try:
        import themes
        for (t, j, k) in cands[:n]:
            jopts = byid[t["id"]][7]
            th = themes.get(jopts.get("theme") or "plain")
            csvo = dict(jopts.get("csv") or {})
            d0 = os.path.join(scratch, "k%d" % kills)
            os.makedirs(os.path.join(d0, "tmp"))
            path = os.path.join(d0, "db.csv")
            ops = [e["a"] for e in t["events"]]
            spec = os.path.join(d0, "job.json")
            with open(spec, "w") as fh:
                json.dump({"repo": common.REPO, "path": path, "tmpdir": os.path.join(d0, "tmp"), "ai": t["auto_index"], "ops": ops, "j": j, "k": k,
                           "theme": jopts.get("theme") or "plain", "csv": csvo}, fh)
            p = subprocess.run([common.PY, os.path.join(common.VERIF, "harness", "killchild.py"), spec], stdout=subprocess.PIPE, stderr=subprocess.PIPE,
                               env=dict(os.environ, PYTHONHASHSEED="0"), timeout=120)
            if p.returncode != 9:
                raise tlc.MachineryError("kill child did not die at the chosen boundary (exit %s; op %s, call %d = %s of %s): %s"
                                         % (p.returncode, json.dumps(ops[j])[:200], k, t["events"][j]["io"]["counted"][k], t["events"][j]["io"]["counted"], p.stderr.decode()[-500:]))
            kills += 1
            data = open(path, "rb").read() if os.path.exists(path) else b""
            dd = driver.Db.__new__(driver.Db)
            dd.th, dd.ntk, dd.nfk, dd.csv_opts = th, 3, 3, csvo
            left = dd.decode_bytes(data)
            ev = dict(t["events"][j])
            io = dict(ev["io"])
            io["snaps"] = [left]
            io["snap_calls"] = ["real-kill-after:" + ev["io"]["counted"][k]]
            ev["io"] = io
            out.append({"id": "kill-%s-%d-%d" % (t["id"], j, k), "kind": "csv", "auto_index": t["auto_index"],
                        "init": t["events"][j - 1]["store"] if j else t["init"], "valid0": t["events"][j - 1]["valid"] if j else t["valid0"],
                        "events": [ev]})
            shutil.rmtree(d0, ignore_errors=True)
    finally:
        shutil.rmtree(scratch, ignore_errors=True)
    return out, kills


def cost_pairs(recorded):
    """C16: I/O calls per single insert, by database size (the same insert on a small and a large database)."""
    by = {}
    for t in recorded:
        n0 = len(t["init"])
        for e in t["events"]:
            if e["a"]["op"] == "insert" and not e["exc"] and "io" in e and not e.get("nostore"):
                by.setdefault(n0 >= 100, set()).add(len(e["io"]["calls"]))
    return by


def run(pid):
    rep = common.Report(pid, "model_checking" if pid != "C12" else "fault_enumeration")
    common.use_repo()
    thorough = rep.tier == "thorough"
    # design level: the rewrite / append programs with a crash between any two effects
    import csvio_model
    dm = csvio_model.check(thorough)
    jobs = jobs_for(pid, rep)
    recorded = traces.record_all(jobs)
    nkills = 0
    if pid == "C12":
        extra, nkills = real_kills(recorded, jobs, 200 if thorough else 16, random.Random(rep.seed + 12))
        for t in extra:
            jobs.append((t["id"], "csv", t["auto_index"], [], [], core.NTK, core.NFK, {}))
        recorded = recorded + extra
    for t in traces.prefill_traces(recorded):
        main = next(j for j in jobs if j[0] == t["id"].split("~")[0])
        jobs.append((t["id"], "csv", 0, [], [], core.NTK, core.NFK, {k: v for k, v in main[7].items() if k in ("csv", "theme")}))
        recorded = recorded + [t]
    verdicts, js = traces.judge(recorded)
    byid = {t["id"]: t for t in recorded}
    other = {}
    nb = 0
    for tid, v in verdicts.items():
        tr = byid[tid]
        reported = False
        for err in traces.errors(v):
            ev = traces.failing_event(tr, err)
            own = OWNER.get(err["clause"]) or traces.owner(ev["a"], err["clause"], ev["exc"])
            if pid == "C12" and err["clause"] in ("store", "file") and ev["a"]["op"] in ("insert", "insert_multiple") and not ev["exc"]:
                own = "C12"      # a point that is not on file when its insert has returned is lost by a crash right after it
            if pid == "C16" and err["clause"] in ("file", "store") and ev["a"]["op"] == "reopen" and (job_opts(jobs, tid).get("csv") or {}).get("flush_on_insert") is False:
                own = "C16"      # flush_on_insert=False: where the buffered appends landed only shows when the file is flushed at close
            if pid == "C16" and err["clause"] == "store" and ev["a"]["op"] in ("insert", "insert_multiple") and not ev["exc"] and "io" not in ev:
                own = "C16"      # (jobs without I/O proxies) an insert that returned must have added its points and nothing else
            if own != pid and not (pid == "C04" and err["clause"] in ("store",) and ev["a"]["op"] in ("insert", "insert_multiple", "reopen")):
                other[own] = other.get(own, 0) + 1
                continue
            if reported:
                continue
            reported = True
            tags = core.failure_tags(tr, err)
            job = next(j for j in jobs if j[0] == tid)
            opts = job[7]
            for k, val in (opts.get("csv") or {}).items():
                tags.add("csv:%s=%s" % (k, val))
            if opts.get("mode"):
                tags.add("mode:" + opts["mode"])
            step = err["step"]
            if err["clause"] == "crash":
                io = ev["io"]
                bad_calls = {io["snap_calls"][i - 1] for i in err["expected"]}
                tags |= {"at:" + c for c in bad_calls}
                if bad_calls <= {"copy_open:db", "copy_data_half:db"}:
                    tags.add("copy_window_only")
                prev = tr["events"][step - 2]["store"] if err["step"] > 1 else tr["init"]
                if ev["store"] == prev:
                    tags.add("contents_unchanged")      # a rewrite although nothing changed: not the known finding
            rep.violation(core.describe_failure(tr, err)[:1500],
                          {"kind": "csv", "auto_index": tr["auto_index"], "ops": [e["a"] for e in tr["events"][:step]],
                           "opts": {k: v for k, v in opts.items() if k != "prefill_points"}, "prefill": len(opts.get("prefill_points") or []),
                           "clause": err["clause"], "expected": err["expected"]}, tags=tags)
    nfault = 0
    if pid == "C15":
        # "... once it has returned OR RAISED": every I/O call of every operation of a few histories fails once (the fault jobs of C13);
        # TLC's clause fault_tmp of Trace_TinyFlux requires that nothing is left in the temp / database directory afterwards
        import c13
        fjobs = c13.fault_jobs(random.Random(rep.seed * 31 + 15), 60 if thorough else 6, thorough, per_op=24)
        frec = traces.record_faults(fjobs)
        fverd, fjs = traces.judge(frec)
        js = {"states": js["states"] + fjs["states"], "transitions": js["transitions"] + fjs["transitions"], **{k: v for k, v in js.items() if k not in ("states", "transitions")}}
        fby = {t["id"]: t for t in frec}
        nfault = sum(1 for t in frec if t["events"][-1].get("fault", {}).get("injected"))
        for tid, v in fverd.items():
            tr = fby[tid]
            for err in traces.errors(v):
                if err["clause"] != "fault_tmp":
                    other["C13"] = other.get("C13", 0) + 1
                    continue
                ev = traces.failing_event(tr, err)
                f = ev["fault"]
                rep.violation("csv storage, auto_index=%d, history of %d call(s), then %s with OSError injected at I/O call '%s' (caller saw %s): %d file(s) left behind "
                              "in the temp / database directory" % (tr["auto_index"], len(tr["events"]) - 1, json.dumps(ev["a"])[:300], f["at"], ev["exc"] or "no error", f["tmp"]),
                              {"auto_index": tr["auto_index"], "ops": [e["a"] for e in tr["events"]], "fault_at": f["at"], "clause": "fault_tmp"},
                              tags={"clause:fault_tmp", "op:" + ev["a"]["op"], "at:" + f["at"]})
                break
    nbound = sum(len(e["io"]["snaps"]) for t in recorded for e in t["events"] if "io" in e)
    nev = sum(len(t["events"]) for t in recorded)
    if pid == "C16":
        cp = cost_pairs(recorded)
        small, large = cp.get(False, set()), cp.get(True, set())
        if small and large and small != large:
            rep.violation("I/O calls per single insert differ with database size: small databases %s, large databases %s" % (sorted(small), sorted(large)),
                          {"small": sorted(small), "large": sorted(large)}, tags={"clause:cost_size"})
        rep.extra["insert_io_calls_small_vs_large"] = {"small": sorted(small), "large": sorted(large)}
    rep.coverage = {
        "states": dm["states"] + js["states"], "transitions": dm["transitions"] + js["transitions"],
        "traces_validated_against_impl": len(recorded),
        "evaluations": nbound if pid == "C12" else nev,
        "distinct_nontrivial": len({json.dumps([e["a"] for e in t["events"]], sort_keys=True) for t in recorded}) if pid != "C12"
        else len({json.dumps(s) for t in recorded for e in t["events"] if "io" in e for s in e["io"]["snaps"]}),
        "rule": {"C12": "every I/O boundary (open, seek, read, write, flush, fsync, truncate, close, temp create, copy open / half / done, rename, unlink) of every API call "
                        "of the sampled histories: the kernel-visible bytes at that boundary are decoded by an independent reader and TLC requires old / new contents; "
                        "distinct = distinct decoded boundary snapshots",
                 }.get(pid, "seeded histories executed on CSV storage under the recording I/O proxies; every call judged by TLC on API-level and I/O-level clauses; distinct = distinct operation sequences"),
        "samples": [{"ops": [e["a"]["op"] for e in t["events"]][:20],
                     "io_calls_of_first_write": next(([c["call"] for c in e["io"]["calls"]] for e in t["events"] if "io" in e and e["io"]["calls"]), [])}
                    for t in recorded[:: max(1, len(recorded) // 3)][:3]],
        "io_boundaries_checked": nbound, "api_calls_judged": nev, "boundaries_revalidated_by_really_killing_a_child_process": nkills, "failures_owned_by_other_properties": other,
        "design_model": dm, "exhaustive": False, "checker_cmd": js["cmd"],
    }
    rep.assumptions = ["process death only: what the kernel has accepted survives (no power-loss / page-cache model)",
                       "torn writes inside one write(2) are not modelled; rows stay below the 8 KiB buffer",
                       "shutil.copy is observed as open-truncate / half / rest / close",
                       "the independent reader shares Python's csv module with the code (the row -> point layer is independent)"]
    return rep.finish()


def replay(repj):
    common.use_repo()
    c = repj["case"]
    if "ops" not in c:
        print(json.dumps(c))
        return 1
    opts = dict(c.get("opts") or {})
    if c.get("prefill"):
        g = gen.Gen(1)
        opts["prefill_points"] = prefill_points(c["prefill"], g)
    job = ("replay", "csv", c["auto_index"], c["ops"], [], core.NTK, core.NFK, opts)
    rec = traces.record_all([job], nproc=1)
    v, _ = traces.judge(rec, workers=1)
    vv = v["replay"]
    if vv["ok"]:
        print("replay: trace accepted by the specification (%d steps)" % vv["steps"])
        return 0
    for err in traces.errors(vv):
        print("replay: " + core.describe_failure(rec[0], err)[:1500])
    return 1
