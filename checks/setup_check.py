"""setup: parse every specification with SANY, make sure the implementation imports, and run the
binding self-test: a recorded trace must be accepted, and the same trace with ONE corrupted
field must be rejected at that step with the clause that owns the field."""
import copy
import glob
import os

import common
import tlc


def binding_selftest():
    import traces
    ops = [
        {"op": "insert", "p": {"t": 1, "m": 1, "tg": [1, -2, -2], "fd": [2, -2, -2]}, "m": -1, "compact": 0},
        {"op": "insert", "p": {"t": 2, "m": 2, "tg": [-1, 3, -2], "fd": [-2, 0, -2]}, "m": -1, "compact": 1},
        {"op": "count", "q": {"k": "tag", "key": 1, "key2": 0, "mf": 0, "op": "exists", "v": 0, "tf": 0}, "m": -1},
        {"op": "insert", "p": {"t": 0, "m": 1, "tg": [-2, -2, -2], "fd": [-2, -2, 1]}, "m": -1, "compact": 0},
        {"op": "get_timestamps", "m": -1},
        {"op": "remove", "q": {"k": "time", "key": 0, "key2": 0, "mf": 0, "op": "ge", "v": 9, "tf": 0}, "m": -1},
        {"op": "all", "m": -1, "sorted": 1},
    ]
    bat = [{"k": "time", "key": 0, "key2": 0, "mf": 0, "op": "le", "v": 1, "tf": 0}]
    base = traces.record_all([("base", "csv", 1, ops, bat, 3, 3, {"io": True})], nproc=1)[0]
    variants = [("pristine", None, base)]

    def corrupt(name, clause, fn):
        t = copy.deepcopy(base)
        t["id"] = name
        fn(t["events"])
        variants.append((name, clause, t))
    corrupt("count+1", "result", lambda ev: ev[2].__setitem__("res", ev[2]["res"] + 1))
    corrupt("lost-point", "store", lambda ev: ev[3]["store"].pop(0))
    corrupt("invalid-after-read", "valid", lambda ev: ev[4].__setitem__("valid", 0))
    corrupt("index-answer", "index", lambda ev: ev[1]["ix"]["live"].__setitem__(0, [7]))
    corrupt("temp-left", "tmp", lambda ev: ev[5]["io"].__setitem__("tmp", 1))
    corrupt("read-wrote", "unchanged", lambda ev: ev[4]["io"].__setitem__("same", 0))
    corrupt("torn-boundary", "crash", lambda ev: ev[3]["io"]["snaps"].append([{"t": 9, "m": 0, "tg": [-2, -2, -2], "fd": [-2, -2, -2]}]))
    corrupt("file-lags", "file", lambda ev: ev[1]["io"]["file"].pop())
    corrupt("raised-read", "raises", lambda ev: ev[2].__setitem__("exc", "KeyError"))
    corrupt("not-append-only", "append", lambda ev: ev[3]["io"]["calls"][1].__setitem__("prefix", 0))
    # a fault run (OSError injected at the first I/O call of the second insert): accepted as recorded, rejected when the
    # caller is said not to have seen the error, or when a file is said to have been left behind
    fj = ("fbase", 1, ops, 1, 0, 0, {"t": 3, "m": 1, "tg": [-2, -2, -2], "fd": [-2, -2, -2]},
          [{"op": "len", "m": -1}, {"op": "all", "m": -1, "sorted": 0}], {})
    fbase = traces.record_faults([fj], nproc=1)[0]
    if not fbase["events"][-1]["fault"]["injected"]:
        return ["binding self-test: the fault of the fault run was not injected"], len(variants)
    variants.append(("fault-pristine", None, fbase))

    def fcorrupt(name, clause, fn):
        t = copy.deepcopy(fbase)
        t["id"] = name
        fn(t["events"][-1]["fault"])
        variants.append((name, clause, t))
    fcorrupt("fault-swallowed", "fault_reported", lambda f: f.__setitem__("oserr", 0))
    fcorrupt("fault-temp-left", "fault_tmp", lambda f: f.__setitem__("tmp", 1))
    verdicts, _ = traces.judge([t for _, _, t in variants], workers=2)
    bad = []
    for name, clause, t in variants:
        errs = traces.errors(verdicts[t["id"]])
        got = {e["clause"] for e in errs}
        if clause is None and errs:
            bad.append("pristine trace rejected: %r" % (errs,))
        if clause is not None and clause not in got:
            bad.append("corruption %s not rejected by clause '%s' (got %s)" % (name, clause, sorted(got)))
    return bad, len(variants)


def main():
    nbad = 0
    for path in sorted(glob.glob(os.path.join(tlc.SPEC, "*.tla"))):
        mod = os.path.basename(path)[:-4]
        ok, out = tlc.sany(mod)
        print("SANY %-22s %s" % (mod, "ok" if ok else "FAILED"))
        if not ok:
            print(out[-2000:])
            nbad += 1
    tf = common.use_repo()
    print("tinyflux imported from", os.path.dirname(tf.__file__))
    os.makedirs(common.EVIDENCE_DIR, exist_ok=True)
    os.makedirs(common.REPLAY_DIR, exist_ok=True)
    if not nbad:
        problems, n = binding_selftest()
        for p in problems:
            print("BINDING SELF-TEST FAILED:", p)
        print("binding self-test: %d trace variants judged, %d problem(s)" % (n, len(problems)))
        nbad += len(problems)
    return 2 if nbad else 0
