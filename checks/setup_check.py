"""setup: parse every specification with SANY and make sure the implementation imports."""
import glob
import os

import common
import tlc


def main():
    bad = 0
    for path in sorted(glob.glob(os.path.join(tlc.SPEC, "*.tla"))):
        mod = os.path.basename(path)[:-4]
        ok, out = tlc.sany(mod)
        print("SANY %-22s %s" % (mod, "ok" if ok else "FAILED"))
        if not ok:
            print(out[-2000:])
            bad += 1
    tf = common.use_repo()
    print("tinyflux imported from", os.path.dirname(tf.__file__))
    os.makedirs(common.EVIDENCE_DIR, exist_ok=True)
    os.makedirs(common.REPLAY_DIR, exist_ok=True)
    return 2 if bad else 0
