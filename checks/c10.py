"""C10 - see checks/core.py (shared engine) and DESIGN.md section 5."""
import core


def main():
    return core.run("C10")


def replay(rep):
    return core.replay(rep)
