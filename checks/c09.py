"""C09 - query expressions mean what the DSL says and never fail on valid points.

spec -> code : TLC enumerates the expression language of MC_Query (every operator
               of every query type; a, ~a, a&b, a|b over all atoms; nesting depth 3
               over a basis) and prints Eval's truth vector over the whole point
               universe; each expression is built with the real DSL and called on
               each real Point.  Any mismatch or exception is a violation.
code -> spec : seeded random deeper expressions are evaluated by the real query
               objects; the recorded truth vectors are judged by TLC against Eval.
"""
import json
import multiprocessing as mp
import os
import random
import shutil

import common
import concretise
import tlc

_G = {}


def universe_consts(thorough):
    R = tlc.Raw
    if thorough:
        return {"TV1": R("{98,99,0,1,2,3,4,5}"), "TV2": R("{99,98,1}"), "FV1": R("{98,99,0,1,2,3,4}"),
                "FV2": R("{99,2}"), "MS": {0, 1, 2, 3}, "TS": {0, 1, 2, 3}}
    return {"TV1": R("{98,99,0,1,2,3,4}"), "TV2": R("{99,1}"), "FV1": R("{98,99,0,1,2,3}"),
            "FV2": R("{99,2}"), "MS": {0, 1, 2}, "TS": {0, 1, 2}}


def _init_worker(repo):
    import sys
    if repo not in sys.path:
        sys.path.insert(0, repo)
    import tinyflux
    _G["tf"] = tinyflux
    _G["th"] = concretise.Theme()
    _G["th2"] = type("EmptyMeas", (concretise.Theme,), {"name": "plain+empty-measurement+empty-tag-value", "meas": [""] + concretise.Theme.meas[1:],
                                                         "strs": [""] + concretise.Theme.strs[1:]})()
    _G["th2"].check()


def _names_measurement(q):
    if q["k"] in ("not", "and", "or"):
        return _names_measurement(q["a"]) or (q["k"] != "not" and _names_measurement(q["b"]))
    return q["k"] in ("meas", "tag") or q["op"] == "noop"       # ... or a tag value: those are the slots the second theme changes


def _eval_chunk(args):
    exprs, univ = args
    tf = _G["tf"]
    out = []
    for th in (_G["th"], _G["th2"]):          # second pass: the lowest measurement name and the lowest tag value are the empty string (falsy, matched by ".*")
        points = [th.point(tf, ap) for ap in univ]
        cache = {}
        for e in exprs:
            q = e["q"]
            if th is _G["th2"] and not _names_measurement(q):
                continue
            try:
                rq = th.query(tf, q, cache)
            except Exception as ex:  # building a well-formed query must not fail
                out.append((e, -1, None, "build raised %r" % (ex,)))
                continue
            tv = e["tv"]
            for i, p in enumerate(points):
                exp = (tv[i // 30] >> (i % 30)) & 1
                try:
                    got = rq(p)
                except Exception as ex:
                    out.append((e, i, exp, "raised %s: %s (%s theme)" % (type(ex).__name__, ex, th.name)))
                    continue
                if bool(got) != bool(exp):
                    out.append((e, i, exp, "%r (%s theme)" % (got, th.name)))
    return out


def _vec_chunk(args):
    exprs, univ = args
    tf, th = _G["tf"], _G["th"]
    points = [th.point(tf, ap) for ap in univ]
    res = []
    cache = {}
    for e in exprs:
        rq = th.query(tf, e["q"], cache)
        vec = []
        err = None
        for i, p in enumerate(points):
            try:
                vec.append(1 if rq(p) else 0)
            except Exception as ex:
                vec.append(2)
                err = (i, "raised %s: %s" % (type(ex).__name__, ex))
        res.append((e["id"], vec, err))
    return res


def random_expr(rng, atoms, depth):
    if depth == 0 or rng.random() < 0.25:
        return rng.choice(atoms)
    r = rng.random()
    if r < 0.3:
        return {"k": "not", "a": random_expr(rng, atoms, depth - 1)}
    return {"k": "and" if r < 0.65 else "or", "a": random_expr(rng, atoms, depth - 1), "b": random_expr(rng, atoms, depth - 1)}


def describe(th, q):
    k = q["k"]
    if k == "not":
        return "~(%s)" % describe(th, q["a"])
    if k in ("and", "or"):
        return "(%s %s %s)" % (describe(th, q["a"]), "&" if k == "and" else "|", describe(th, q["b"]))
    base = {"time": "Time", "meas": "Meas", "tag": "Tag", "field": "Field"}[k]
    s = base
    if q["key"]:
        s += "." + th.key(k, q["key"])
    if q.get("key2"):
        s += "." + th.key(k, q["key2"])
    if q.get("mf"):
        s += ".map(f%d)" % q["mf"] if q["mf"] != 9 else "[map(identity) before key]"
    op = q["op"]
    if op in ("eq", "ne", "lt", "le", "gt", "ge"):
        return "%s %s %r" % (s, {"eq": "==", "ne": "!=", "lt": "<", "le": "<=", "gt": ">", "ge": ">="}[op], th.val(k, q["v"]))
    if op in ("matches", "search"):
        return "%s.%s(%r, flags=%d)" % (s, op, concretise.PATTERNS[q["v"]][0], concretise.PATTERNS[q["v"]][1])
    if op == "test":
        return "%s.test(t%d%s)" % (s, q["tf"], ", %r" % th.val(k, q["v"]) if q["tf"] == 3 else "")
    return "%s.%s()" % (s, op)


def main():
    rep = common.Report("C09", "model_checking")
    tf = common.use_repo()
    th = concretise.Theme()
    try:
        th.check()
    except concretise.ThemeError as e:
        raise tlc.MachineryError(str(e))
    thorough = rep.tier == "thorough"
    consts = {"Mode": "export", "BasisN": 6 if thorough else 4, "Part": 0, "LawEvery": 7 if thorough else 10}
    consts.update(universe_consts(thorough))
    r = tlc.run_tlc("MC_Query", tlc.cfg_text(constants=consts, invariants=["Emit", "TypeLaws"]), workers=16, timeout=3000)
    tlc.require_clean(r, "MC_Query export")
    if r.violated:
        raise tlc.MachineryError("reference interpreter violates its own laws: %s" % r.violated)
    univ = r.lines("UNIV")[0]
    exprs = r.lines("EXPR")
    if len(exprs) < 1000:
        raise tlc.MachineryError("too few expressions exported: %d" % len(exprs))
    for e in exprs:
        e["q"] = concretise.norm_query(e["q"])
    nproc = 16
    chunks = [(exprs[i::nproc * 4], univ) for i in range(nproc * 4)]
    with mp.Pool(nproc, initializer=_init_worker, initargs=(common.REPO,)) as pool:
        results = pool.map(_eval_chunk, chunks)
        # ---- code -> spec ----------------------------------------------------
        rng = random.Random(rep.seed * 104729 + 9)
        atoms = [e["q"] for e in exprs if e["q"]["k"] not in ("not", "and", "or")]
        n_rand = 4000 if thorough else 600
        rexprs = [{"id": i, "q": random_expr(rng, atoms, rng.randint(3, 6))} for i in range(n_rand)]
        rng.shuffle(univ_idx := list(range(len(univ))))
        sub = [univ[i] for i in univ_idx[:400 if thorough else 200]]
        vecs = pool.map(_vec_chunk, [(rexprs[i::nproc], sub) for i in range(nproc)])
    n_eval = len(exprs) * len(univ)
    nbad = 0
    for chunk in results:
        for (e, i, exp, got) in chunk:
            nbad += 1
            if nbad > 2000:
                break
            tags = concretise.query_tags(e["q"])
            if isinstance(got, str) and "raised" in got:
                tags.add("raise")
            pt = univ[i] if i >= 0 else None
            if pt is not None:
                if concretise.NONE in pt["tg"]:
                    tags.add("tag_none")
                if concretise.NONE in pt["fd"]:
                    tags.add("field_none")
            rep.violation("query %s on point %s: spec says %s, implementation %s" % (
                describe(th, e["q"]), pt, bool(exp) if exp is not None else "-", got),
                {"kind": "export", "q": e["q"], "point": pt, "expected": exp, "got": str(got)}, tags=tags)
    # judge recorded vectors with TLC
    scratch = tlc.mkscratch("c09-")
    try:
        cases = []
        qmap = {}
        for part in vecs:
            for (cid, vec, err) in part:
                q = rexprs[cid]["q"]
                qmap[cid] = q
                if err:
                    tags = concretise.query_tags(q) | {"raise"}
                    pt = sub[err[0]]
                    if concretise.NONE in pt["tg"]:
                        tags.add("tag_none")
                    rep.violation("query %s on point %s %s" % (describe(th, q), pt, err[1]),
                                  {"kind": "random", "q": q, "point": pt, "got": err[1]}, tags=tags)
                    continue
                cases.append({"id": cid, "q": q, "vec": vec})
        path = os.path.join(scratch, "rec.json")
        with open(path, "w") as fh:
            json.dump({"cases": cases, "universe": sub}, fh)
        c2 = dict(consts)
        c2["Mode"] = "validate"
        r2 = tlc.run_tlc("MC_Query", tlc.cfg_text(constants=c2, invariants=["Emit"]), env={"VERIF_IN": path}, workers=8)
        tlc.require_clean(r2, "MC_Query validate")
        if r2.distinct != len(cases) + 1:
            raise tlc.MachineryError("TLC judged %d of %d recorded cases" % (r2.distinct - 1, len(cases)))
        byid = {c["id"]: c for c in cases}
        for bad in r2.lines("BAD"):
            c = byid[bad["id"]]
            diff = [i for i in range(len(sub)) if bad["expected"][i] != c["vec"][i]]
            i = diff[0]
            tags = concretise.query_tags(c["q"])
            rep.violation("query %s on point %s: spec says %s, implementation %s (and %d more points)" % (
                describe(th, c["q"]), sub[i], bool(bad["expected"][i]), bool(c["vec"][i]), len(diff) - 1),
                {"kind": "random", "q": c["q"], "point": sub[i], "expected": bad["expected"][i], "got": c["vec"][i]}, tags=tags)
        n_eval += len(cases) * len(sub)
    finally:
        shutil.rmtree(scratch, ignore_errors=True)
    rep.coverage = {
        "states": r.distinct + r2.distinct,
        "transitions": r.states + r2.states,
        "traces_validated_against_impl": len(exprs) + len(cases),
        "evaluations": n_eval,
        "distinct_nontrivial": len(exprs) + len(cases),
        "rule": "export: every expression a, ~a, a&b, a|b over %d atoms (all operators x all query types) plus the same closure applied twice "
                "over a %d-atom basis, each evaluated on all %d points of the universe (missing / None / lowest / equal-to-bound / above values per slot); "
                "validate: %d seeded random expressions of depth 3-6 on %d points, judged by TLC; distinct = distinct expressions"
                % (len(atoms), consts["BasisN"], len(univ), len(cases), len(sub)),
        "samples": [{"query": describe(th, e["q"]), "ast": e["q"]} for e in exprs[:: max(1, len(exprs) // 4)][:4]],
        "exhaustive": True,
        "checker_cmd": r.cmd,
        "universe_points": len(univ),
        "expressions_exported": len(exprs),
    }
    rep.assumptions = ["user callables come from a fixed table of total functions (a user function that raises is the user's error)",
                       "regex patterns are chosen so that prefix- and whole-string matching coincide (DESIGN.md appendix A)",
                       "values are ranks mapped order-isomorphically to real datetimes/strings/numbers by the plain theme"]
    return rep.finish()


def replay(rep):
    tf = common.use_repo()
    th = concretise.Theme()
    c = rep["case"]
    q = th.query(tf, c["q"])
    p = th.point(tf, c["point"])
    try:
        got = q(p)
    except Exception as e:  # noqa
        got = "raised %r" % (e,)
    print("query %s\npoint %r\nexpected %r got %r" % (describe(th, c["q"]), p, c.get("expected"), got))
    return 0 if (not isinstance(got, str) and bool(got) == bool(c.get("expected"))) else 1
