"""C14 - no API path lets an invalid value into the database.

The specification owns the matrix (MC_TinyFlux.BadCells): entry point x slot x kind
of wrongly typed value, static or produced by a callable; TLC enumerates every cell
as a transition after 0-2 inserts, followed by all() and count().  Each path is run
on the real package in the four configurations and judged by TLC: the call must
raise ValueError/TypeError (callable entries: iff a point is selected), the
projected contents - decoded and TYPE-CHECKED by the harness through the theme, so
an ill-typed stored value cannot be named and fails the store clause - must be
unchanged, and the following reads must return the same well-typed contents.
Random histories with failing updates (invalid callable results) are judged too.
"""
import json

import common
import concretise
import core
import gen
import tlc
import traces


def main():
    rep = common.Report("C14", "model_checking")
    common.use_repo()
    th = concretise.Theme()
    th.check()
    thorough = rep.tier == "thorough"
    paths, rp = core.export_paths("bad", 6, 4)
    if not paths:
        raise tlc.MachineryError("no bad-argument paths exported")
    cells = {(p[-3]["entry"], p[-3]["slot"], p[-3]["kind"], p[-3]["with"]) for p in paths}
    jobs = core.path_jobs(paths, "b", [])
    # random histories with invalid callable results
    n_rand = 6000 if thorough else 400
    for i in range(n_rand):
        g = gen.Gen(rep.seed * 99991 + i, focus={"update": 7, "update_all": 3, "fail": 0.6, "bad": 0.3}, handles=0.2)
        kind, ai = traces.CONFIGS[i % 4]
        ops = g.history(g.r.choice([8, 15, 25]), p_read=0.4)
        for a in ops:
            if a.get("fail", 0) > 0:
                a["fail"] = -a["fail"]          # invalid value instead of raising
        jobs.append(("r%d" % i, kind, ai, ops, [], core.NTK, core.NFK))
    recorded = traces.record_all(jobs)
    verdicts, js = traces.judge(recorded)
    byid = {t["id"]: t for t in recorded}
    cut = {}
    for tid, v in verdicts.items():
        tr = byid[tid]
        for err in traces.errors(v):
            ev = traces.failing_event(tr, err)
            step = err["step"]
            bad_before = [e["a"] for e in tr["events"][:step] if e["a"]["op"] == "bad" or e["a"].get("fail", 0) < 0]
            own = traces.owner(ev["a"], err["clause"], ev["exc"])
            mine = ev["a"]["op"] == "bad" or ev["a"].get("fail", 0) < 0 or \
                (bad_before and err["clause"] in ("store", "result") and tr["id"].startswith("b"))
            if not mine:
                cut[own] = cut.get(own, 0) + 1
                continue
            tags = core.failure_tags(tr, err)
            b = ev["a"] if ev["a"]["op"] == "bad" else (bad_before[-1] if bad_before else ev["a"])
            if b["op"] == "bad":
                tags |= {"entry:" + b["entry"], "slot:" + b["slot"], "kind:" + b["kind"], "with:" + b.get("with", "none")}
            rep.violation(core.describe_failure(tr, err),
                          {"kind": tr["kind"], "auto_index": tr["auto_index"], "ops": [e["a"] for e in tr["events"][:step]],
                           "clause": err["clause"], "expected": err["expected"]}, tags=tags)
            break
    rep.coverage = {
        "states": rp.distinct + js["states"], "transitions": rp.states + js["transitions"],
        "traces_validated_against_impl": len(recorded),
        "evaluations": sum(len(t["events"]) for t in recorded),
        "distinct_nontrivial": len(cells),
        "rule": "every cell of the specification's matrix BadCells (entry point {ctor, setter, insert measurement=, update/update_all/handle.update static and callable} x slot "
                "{time, measurement, tag key, tag value, field key, field value} x kind {int, float, bool, bytes, None, list, dict, str, each also falsy}) after 0, 1 and 2 inserts, "
                "x 4 configurations, followed by all() and count(); plus %d random histories with callables returning invalid values; distinct = distinct cells" % n_rand,
        "samples": [{"entry": c[0], "slot": c[1], "kind": c[2], "valid_companion_argument": c[3]} for c in sorted(cells)[::97][:6]],
        "exhaustive": True, "cells": len(cells), "tlc_paths": len(paths), "failures_owned_by_other_properties": cut,
        "checker_cmd": rp.cmd,
    }
    rep.assumptions = ["falsy static time/measurement arguments of update() mean 'argument absent' (DESIGN.md appendix C) and are not generated",
                       "list/dict as dictionary keys are unhashable in Python and cannot be supplied"]
    return rep.finish()


def replay(rep):
    return core.replay(rep)
