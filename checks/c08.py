"""C08 - timestamps are stored as exact UTC instants and ordered correctly.

The specification is zone-free by construction (instants are ranks); that IS the
property.  The binding replays the same kind of histories as C01/C03 under the
`time-edge` and `time-far` themes - instants at adjacent microseconds, ties, the
epoch, DST gaps and folds of the test zones, the range ends 1700 / 2239 - with
every input datetime (inserted points, update(time=...) static and callable,
TimeQuery comparison values) rendered in some other UTC offset or as a naive local
value naming the same instant, with points that carry no time (insertion-time
stamps), through insert / update / reopen, in worker processes whose local zone is
each of UTC, America/Los_Angeles, Australia/Lord_Howe, Asia/Kathmandu.  TLC judges
every call; the projection additionally requires every returned time to be an
aware UTC datetime equal to the microsecond.
"""
import json
import random

import common
import concretise
import core
import gen
import tlc
import traces

ZONES = ["UTC", "America/Los_Angeles", "Australia/Lord_Howe", "Asia/Kathmandu"]


def has_time(q):
    if q["k"] in ("not", "and", "or"):
        return has_time(q["a"]) or ("b" in q and has_time(q["b"]))
    return q["k"] == "time"


def mask(x):
    if isinstance(x, dict):
        return {k: (0 if k == "t" else mask(v)) for k, v in x.items()}
    if isinstance(x, list):
        return [mask(v) for v in x]
    return x


def time_related(ev, err):
    a = ev["a"]
    if err["clause"] in ("now",):
        return True
    if a["op"] in ("get_timestamps",) or ("q" in a and has_time(a["q"])):
        return True
    if a["op"] in ("update", "update_all") and a["u"]["tk"]:
        return True
    if a["op"] in ("search", "all") and a.get("sorted"):
        return True
    if a["op"] == "select" and any(k["k"] == "time" for k in a["keys"]):
        return True
    got = ev["store"] if err["clause"] == "store" else ev["res"]
    if err["clause"] in ("store", "result") and mask(got) == mask(err["expected"]) and got != err["expected"]:
        return True
    if err["clause"] in ("valid", "index"):
        return True
    return False


def main():
    rep = common.Report("C08", "model_checking")
    common.use_repo()
    thorough = rep.tier == "thorough"
    st, tr_, cmd = core.design_check(False)
    rng = random.Random(rep.seed * 811 + 8)
    n_rand = 4000 if thorough else 240
    bat = gen.Gen(rep.seed + 8, nt=20).battery(3)
    paths, rp = core.export_paths("index", 3, 4)
    if len(paths) > (12000 if thorough else 600):
        paths = rng.sample(paths, 12000 if thorough else 600)
    recorded, stats = [], {"states": 0, "transitions": 0, "cmd": ""}
    verdicts = {}
    for zi, tz in enumerate(ZONES):
        jobs = []
        for theme in ("time-edge", "time-far"):
            for i in range(n_rand // 2):
                # stamps are later than the theme's instants only for time-edge; histories with stamps use static time
                # updates only, the others also callables (whose results are rendered in other zones)
                now = 0.25 if (theme == "time-edge" and i % 2 == 0) else 0.0
                import themes
                far_pool = [i for i, t in enumerate(themes.get("time-far").times) if t.year < 1901 or t.year > 1930]   # range start, 2038 / 2106 boundaries, the end of 2239 at microsecond steps
                g = gen.Gen(rng.randrange(1 << 30), nt=24 if theme == "time-edge" else 70, now=now, handles=0.1,
                            time_pool=None if theme == "time-edge" else far_pool,
                            focus={"insert": 7, "insert_multiple": 3, "update": 4, "update_all": 1, "remove": 2, "reopen": 1,
                                   "reads": ["search", "search", "count", "get", "select", "get_timestamps", "get_timestamps", "all", "contains"]})
                kind, ai = traces.CONFIGS[i % 4]
                ops = g.history(g.r.choice([10, 18, 28]), p_read=0.5)
                for a in ops:                                       # bias queries towards time comparisons
                    if "q" in a and g.r.random() < 0.6:
                        a["q"] = {"k": "time", "key": 0, "key2": 0, "mf": 0, "op": g.r.choice(["eq", "ne", "lt", "le", "gt", "ge"]),
                                  "v": g.rt(), "tf": 0}
                        a.pop("adapt", None)
                jobs.append(("%s-%s-r%d" % (tz, theme, i), kind, ai, ops, bat, core.NTK, core.NFK, {"theme": theme}))
        for i, ops in enumerate(paths[zi::len(ZONES)]):
            kind, ai = traces.CONFIGS[i % 4]
            jobs.append(("%s-p%d" % (tz, i), kind, ai, ops, bat, core.NTK, core.NFK, {"theme": "time-edge"}))
        rec = traces.record_all(jobs, tz=tz)
        v, js = traces.judge(rec)
        verdicts.update(v)
        recorded += rec
        stats["states"] += js["states"]
        stats["transitions"] += js["transitions"]
        stats["cmd"] = js["cmd"]
    byid = {t["id"]: t for t in recorded}
    other = 0
    for tid, v in verdicts.items():
        tr = byid[tid]
        for err in traces.errors(v):
            ev = traces.failing_event(tr, err)
            if not time_related(ev, err):
                other += 1
                continue
            tags = core.failure_tags(tr, err) | {"tz:" + tid.split("-")[0]}
            step = err["step"]
            rep.violation("[process TZ %s] " % tid.split("-")[0] + core.describe_failure(tr, err)[:1200],
                          {"kind": tr["kind"], "auto_index": tr["auto_index"], "ops": [e["a"] for e in tr["events"][:step]], "tz": tid.split("-")[0],
                           "clause": err["clause"], "expected": err["expected"]}, tags=tags)
            break
    nev = sum(len(t["events"]) for t in recorded)
    rep.coverage = {
        "states": st + stats["states"], "transitions": tr_ + stats["transitions"],
        "traces_validated_against_impl": len(recorded), "evaluations": nev,
        "distinct_nontrivial": len({json.dumps([e["a"] for e in t["events"]], sort_keys=True) + t["id"].split("-")[0] for t in recorded}),
        "rule": "per process zone in %s: %d seeded random histories under the time-edge theme (adjacent microseconds, epoch, DST gaps/folds, stamps for points without time) and the "
                "time-far theme (1700 .. 2239-12-31T23:59:59.999999 at microsecond steps), plus TLC paths of the index alphabet; inputs rendered in other UTC offsets / as naive local values; "
                "every call judged by TLC; distinct = distinct (zone, operation sequence)" % (ZONES, n_rand),
        "samples": [{"zone": t["id"].split("-")[0], "ops": [e["a"]["op"] for e in t["events"]][:20]} for t in recorded[:: max(1, len(recorded) // 3)][:3]],
        "zones": ZONES, "events_judged": nev, "failures_not_time_related": other, "checker_cmd": stats["cmd"],
    }
    rep.assumptions = ["datetimes are SAMPLED (curated edge instants + ranks), not enumerated", "naive TimeQuery comparison values are outside the documented domain",
                       "for naive inputs the expected instant is datetime.astimezone() in the worker's zone (the documented rule)"]
    return rep.finish()


def replay(repj):
    return core.replay(repj)
