"""C04 - see checks/storage.py (shared storage engine), spec/CsvIO.tla and DESIGN.md section 5."""
import storage


def main():
    return storage.run("C04")


def replay(rep):
    return storage.replay(rep)
