"""Concretisation: abstract ranks of the specification -> real datetimes, strings,
numbers, Points and query objects of the implementation, and back.

A Theme is an order-embedding per slot (rank a < b  =>  value a < value b under
Python's comparison for that slot).  `check()` verifies the embedding and that the
theme's strings realise the regex tables of spec/Query.tla; a theme that does not
is a machinery failure, never a verdict.
"""
import re
from datetime import datetime, timedelta, timezone

NONE = -1
MISSING = -2

# regex pattern ids of spec/Query.tla
PATTERNS = {1: ("a.*", 0), 2: ("b$", 0), 3: (".*", 0), 4: ("A.*", re.I), 5: ("A.*", 0)}
RE_MATCH = {1: {1, 2}, 2: {3}, 3: None, 4: {1, 2}, 5: set()}
RE_SEARCH = {1: {1, 2, 4}, 2: {2, 3}, 3: None, 4: {1, 2, 4}, 5: set()}


class ThemeError(Exception):
    pass


class Theme:
    name = "plain"
    # rank -> value tables (index = rank)
    times = [datetime(2021, 3, 1, 0, 0, 0, tzinfo=timezone.utc) + timedelta(hours=h) for h in range(400)]
    meas = ["0m", "a", "ab", "b", "ba", "c"] + ["d%03d" % i for i in range(300)]
    strs = ["0", "a", "ab", "b", "ba", "c"] + ["d%03d" % i for i in range(300)]
    nums = [-2, -1, 0, 1, 2.5, 10] + [11.25 + 3 * i for i in range(300)]     # hash(-2) == hash(-1) in CPython; 0 == False, 1 == True
    tagkeys = ["k", "k_1", "k_1_x"]       # spec key i  -> tagkeys[i-1]; each a substring of the next, with underscores
    fieldkeys = ["k", "k_1", "v_1_x"]     # the first two ALSO name tags: a tag and a field of the same name are different things
    regex = True                            # theme realises the regex tables

    def __init__(self):
        self._rank = {
            "time": {v: i for i, v in enumerate(self.times)},
            "meas": {v: i for i, v in enumerate(self.meas)},
            "tag": {v: i for i, v in enumerate(self.strs)},
            "field": {v: i for i, v in enumerate(self.nums)},
        }
        self._unrank = {"time": self.times, "meas": self.meas, "tag": self.strs, "field": self.nums}

    # ---- verification of the theme itself --------------------------------
    def check(self):
        for slot, tab in self._unrank.items():
            for a, b in zip(tab, tab[1:]):
                if not a < b:
                    raise ThemeError("%s theme: %s table is not strictly increasing at %r, %r" % (self.name, slot, a, b))
        for name, keys in (("tag keys", self.tagkeys), ("field keys", self.fieldkeys)):
            if list(keys) != sorted(set(keys)):
                raise ThemeError("%s theme: %s are not strictly increasing" % (self.name, name))
        if self.regex:
            for slot in ("tag", "meas"):
                tab = self._unrank[slot]
                for pid, (pat, fl) in PATTERNS.items():
                    m = {i for i, s in enumerate(tab) if re.match(pat, s, fl)}
                    s_ = {i for i, s in enumerate(tab) if re.search(pat, s, fl)}
                    em = set(range(len(tab))) if RE_MATCH[pid] is None else {i for i in RE_MATCH[pid] if i < len(tab)}
                    es = set(range(len(tab))) if RE_SEARCH[pid] is None else {i for i in RE_SEARCH[pid] if i < len(tab)}
                    mf = {i for i, s in enumerate(tab) if re.fullmatch(pat, s, fl)}
                    if m != em or s_ != es or mf != em:
                        raise ThemeError("%s theme: %s strings do not realise regex table of pattern %d" % (self.name, slot, pid))

    # ---- values -------------------------------------------------------------
    def val(self, slot, r):
        if r == NONE:
            return None
        if slot == "time" and r >= self.NOW_BASE:
            return {rr: v for v, rr in self.__dict__.get("dynamic", {}).items()}[r]
        return self._unrank[slot][r]

    NOW_BASE = 1000

    def rank(self, slot, v):
        if v is None:
            return NONE
        if slot == "time" and isinstance(v, datetime) and v.tzinfo is not None:
            v = v.astimezone(timezone.utc)
        if slot == "time" and v not in self._rank["time"]:
            # "insertion time" stamps: named by ranks >= NOW_BASE in the order they appear; a stamp is
            # only accepted inside the window of the call that produced it
            dyn = self.__dict__.setdefault("dynamic", {})
            if v in dyn:
                return dyn[v]
            win = self.__dict__.get("window")
            if win and win[0] <= v <= win[1]:
                dyn[v] = self.NOW_BASE + len(dyn)
                return dyn[v]
        return self._rank[slot][v]          # KeyError = value unknown to the theme (a divergence)

    OFFSETS = [0, -480, 330, -210, 600, 0, 45, -570]      # minutes east of UTC

    naive_inputs = False

    def zoned(self, r, salt=0, allow_naive=True):
        """the instant of rank r expressed in some other UTC offset - or, for themes that allow it,
        as a naive local datetime when that names the same instant (same instant either way)"""
        if r >= self.NOW_BASE:
            return {rr: v for v, rr in self.__dict__.get("dynamic", {}).items()}[r]
        dt = self._unrank["time"][r]
        pick = (r * 7 + salt * 3) % (len(self.OFFSETS) + (3 if (self.naive_inputs and allow_naive) else 0))
        if pick >= len(self.OFFSETS):
            local = dt.astimezone().replace(tzinfo=None)
            try:
                if local.astimezone(timezone.utc) == dt:       # the documented rule for naive values
                    return local
            except (OverflowError, OSError, ValueError):
                pass
            return dt
        off = self.OFFSETS[pick]
        return dt.astimezone(timezone(timedelta(minutes=off))) if off else dt

    def key(self, slot, k):
        return (self.tagkeys if slot == "tag" else self.fieldkeys)[k - 1]

    def keyidx(self, slot, name):
        return (self.tagkeys if slot == "tag" else self.fieldkeys).index(name) + 1

    # ---- points --------------------------------------------------------------
    def point_utc(self, tf, ap):
        """abstract point -> Point as the database holds it (time already an aware UTC datetime)"""
        p = self.point(tf, ap)
        p.time = self.val("time", ap["t"])
        return p

    def point(self, tf, ap):
        """abstract point {"t","m","tg","fd"} -> fresh tinyflux.Point"""
        tags = {self.tagkeys[i]: self.val("tag", v) for i, v in enumerate(ap["tg"]) if v != MISSING}
        fields = {self.fieldkeys[i]: self.val("field", v) for i, v in enumerate(ap["fd"]) if v != MISSING}
        if ap["t"] == -5:                       # a point without a time
            p = tf.Point()
            p.measurement = self.val("meas", ap["m"])
            p.tags = tags
            p.fields = fields
            return p
        if ap["t"] >= self.NOW_BASE:            # a stamp handed out earlier in this trace
            inv = {r: v for v, r in self.__dict__.get("dynamic", {}).items()}
            return tf.Point(time=inv[ap["t"]], measurement=self.val("meas", ap["m"]), tags=tags, fields=fields)
        return tf.Point(time=self.zoned(ap["t"], ap["m"]), measurement=self.val("meas", ap["m"]), tags=tags, fields=fields)

    def abstract_point(self, p, ntk, nfk):
        tg = [MISSING] * ntk
        fd = [MISSING] * nfk
        for k, v in p.tags.items():
            tg[self.keyidx("tag", k) - 1] = self.rank("tag", v)
        for k, v in p.fields.items():
            fd[self.keyidx("field", k) - 1] = self.rank("field", v)
        if p.time.tzinfo is None or p.time.utcoffset() != timedelta(0):
            raise ThemeError("returned time is not an aware UTC datetime: %r" % (p.time,))
        return {"t": self.rank("time", p.time), "m": self.rank("meas", p.measurement), "tg": tg, "fd": fd}

    # ---- user callables realising the spec's function tables ---------------------
    def mapfn(self, slot, f):
        rank, unrank = self._rank[slot], self._unrank[slot]

        def rk(v):
            if slot == "time" and v.tzinfo is not None:
                v = v.astimezone(timezone.utc)
            return rank[v]
        if f == 1:
            def succ(v):
                if v is None:
                    raise TypeError("succ of None")
                return unrank[rk(v) + 1]
            return succ
        if f == 2:
            return lambda v: unrank[1] if v is None else unrank[0]
        if f == 3:
            def low(v):
                if v is None or rk(v) >= 2:
                    raise ValueError("partial")
                return v
            return low
        raise ThemeError("unknown map function %r" % f)

    def testfn(self, slot, f):
        rank = self._rank[slot]

        def rk(v):
            if slot == "time" and v.tzinfo is not None:
                v = v.astimezone(timezone.utc)
            return rank[v]
        if f == 1:
            return lambda v: v is not None and rk(v) % 2 == 0
        if f == 2:
            return lambda v: v is None
        if f == 3:
            return lambda v, a: v is not None and v >= a
        if f == 4:
            return lambda v: None if v is None else rk(v)
        raise ThemeError("unknown test function %r" % f)

    # ---- queries ---------------------------------------------------------------
    def query(self, tf, q, cache=None):
        """abstract query AST -> real query object built with the public DSL"""
        k = q["k"]
        if k == "not":
            return ~self.query(tf, q["a"], cache)
        if k == "and":
            return self.query(tf, q["a"], cache) & self.query(tf, q["b"], cache)
        if k == "or":
            return self.query(tf, q["a"], cache) | self.query(tf, q["b"], cache)
        cls = {"time": tf.TimeQuery, "meas": tf.MeasurementQuery, "tag": tf.TagQuery, "field": tf.FieldQuery}[k]
        # builder objects (`TagQuery()`, `TagQuery().k`) are kept and used again for later queries, the way a program
        # keeps `City = TagQuery().city` around: whatever a builder remembers from an earlier use must not leak into a later one
        base = self._cached(cache, ("builder", k), cls)
        op = q["op"]
        if op == "noop":
            return base.noop()
        if q.get("mf") == 9:          # map placed before the key: f(dict) -> dict
            base = base.map(self._cached(cache, ("map", k, 9), lambda: (lambda d: d)))
        if q["key"]:
            if q.get("mf") == 9:
                base = base[self.key(k, q["key"])]
            else:
                base = self._cached(cache, ("builder", k, q["key"]), lambda b=base: b[self.key(k, q["key"])])
        if q.get("key2"):
            base = base[self.key(k, q["key2"])]
        if q.get("mf") and q["mf"] != 9:
            base = base.map(self._cached(cache, ("map", k, q["mf"]), lambda: self.mapfn(k, q["mf"])))
        v = q["v"]
        if k == "time" and op in ("eq", "ne", "lt", "le", "gt", "ge") and v >= 0:
            rhs = self.zoned(v, 1, allow_naive=False)   # comparison value in another zone, same instant (never naive)
            return {"eq": base.__eq__, "ne": base.__ne__, "lt": base.__lt__, "le": base.__le__,
                    "gt": base.__gt__, "ge": base.__ge__}[op](rhs)
        if op == "eq":
            return base == self.val(k, v)
        if op == "ne":
            return base != self.val(k, v)
        if op == "lt":
            return base < self.val(k, v)
        if op == "le":
            return base <= self.val(k, v)
        if op == "gt":
            return base > self.val(k, v)
        if op == "ge":
            return base >= self.val(k, v)
        if op == "exists":
            return base.exists()
        if op == "matches":
            return base.matches(PATTERNS[v][0], flags=PATTERNS[v][1]) if PATTERNS[v][1] else base.matches(PATTERNS[v][0])
        if op == "search":
            return base.search(PATTERNS[v][0], flags=PATTERNS[v][1]) if PATTERNS[v][1] else base.search(PATTERNS[v][0])
        if op == "test":
            fn = self._cached(cache, ("test", k, q["tf"]), lambda: self.testfn(k, q["tf"]))
            if q["tf"] == 3:
                return base.test(fn, self.val(k, v))
            return base.test(fn)
        raise ThemeError("unknown op %r" % op)

    @staticmethod
    def _cached(cache, key, make):
        if cache is None:
            return make()
        if key not in cache:
            cache[key] = make()
        return cache[key]


def fix_json(x):
    """TLC's ToJson prints an empty sequence as {}; undo that where a list is expected."""
    return [] if x == {} else x


def norm_query(q):
    """Normalise an AST coming from TLC's JSON (nothing to do but recurse today)."""
    if q["k"] in ("not",):
        return {"k": "not", "a": norm_query(q["a"])}
    if q["k"] in ("and", "or"):
        return {"k": q["k"], "a": norm_query(q["a"]), "b": norm_query(q["b"])}
    return q


def query_tags(q, out=None):
    """Signature atoms of a query, for known-finding matching."""
    out = set() if out is None else out
    k = q["k"]
    if k in ("not", "and", "or"):
        out.add(k)
        query_tags(q["a"], out)
        if "b" in q:
            query_tags(q["b"], out)
        if k == "not" and q["a"]["k"] == "field":
            out.add("not_field")
        return out
    out.add(k)
    out.add(k + ":" + q["op"])
    if q.get("mf"):
        out.add("map")
        out.add(k + ":map")
    if q.get("key2"):
        out.add("key2")
    if q["op"] == "test":
        out.add("testfn%d" % q["tf"])
    if q["op"] in ("matches", "search"):
        out.add("regex")
    return out
