"""Themes: order-embeddings of the specification's ranks into real values
(DESIGN.md section 3.1).  `plain` lives in concretise.Theme."""
import concretise


class Hostile(concretise.Theme):
    """CSV-hostile strings: delimiters, quotes, CR/LF, control characters, leading and
    trailing blanks, reserved prefixes, non-ASCII; same order structure as `plain`."""
    name = "csv-hostile"
    regex = False
    meas = sorted([" m,0", 'a"q"', "a,b\r\nc", "b\nnl", "ba;'x'", "cé\U0001F600"] + ['d%02d,"x"' % i for i in range(90)])
    strs = sorted([" lead", "a,1", 'a"2"', "b\r\n3", "bü\n4", "c\t;5 "] + ["d%02d\n" % i for i in range(90)])
    tagkeys = ["k,1", "_tag_x", 't_"k3"']
    fieldkeys = ["f\n1", "_field_y", "f_ 3"]


class Latin(concretise.Theme):
    """Strings encodable in latin-1 (for the encoding matrix of C04)."""
    name = "latin"
    regex = False
    meas = sorted(["0m", "aé", "ab,ü", 'b"ñ"', "ba\n", "c"] + ["d%02d" % i for i in range(90)])
    strs = sorted(["0", "aé", "ab;è", "b\r\n", "baß", "c,"] + ["d%02d" % i for i in range(90)])


_ALL = {}


def get(name):
    if name not in _ALL:
        t = {"plain": concretise.Theme, "csv-hostile": Hostile, "latin": Latin}[name]()
        t.check()
        _ALL[name] = t
    return _ALL[name]
