"""Themes: order-embeddings of the specification's ranks into real values
(DESIGN.md section 3.1).  `plain` lives in concretise.Theme."""
import concretise


class Hostile(concretise.Theme):
    """CSV-hostile strings: delimiters, quotes, CR/LF, control characters, leading and
    trailing blanks, reserved prefixes, non-ASCII; same order structure as `plain`."""
    name = "csv-hostile"
    regex = False
    meas = sorted([" m,0", 'a"q"', "a,b\r\nc", "b\nnl", "ba;'x'", "cé\U0001F600"] + ['d%03d,"x"' % i for i in range(300)])
    strs = sorted(["", "a,1", 'a"2"', "b\r\n3", "bü\n4", "c\t;5 "] + ["d%03d\n" % i for i in range(300)])
    nums = [-1000000, -10.5, -3, -2, -1, -0.5] + [0.001 * i for i in range(300)]      # mostly negative; 0.0 only at rank 6
    tagkeys = sorted(["k,1", "_tag_x", 't_"k3"'])
    fieldkeys = sorted(["f\n1", "_field_y", "f_ 3"])


class BigInt(concretise.Theme):
    """Integers that a float cannot represent exactly, next to one another (plain strings and instants)."""
    name = "bigint"
    nums = [-(2 ** 53) - 1, 2 ** 53 + 1, 2 ** 53 + 3, 2 ** 53 + 5, 10 ** 18 + 1, 10 ** 18 + 3] + [10 ** 18 + 5 + 2 * i for i in range(300)]


class Latin(concretise.Theme):
    """Strings encodable in latin-1 (for the encoding matrix of C04)."""
    name = "latin"
    regex = False
    meas = sorted(["0m", "aé", "ab,ü", 'b"ñ"', "ba\n", "c"] + ["d%03d" % i for i in range(300)])
    strs = sorted(["0", "aé", "ab;è", "b\r\n", "baß", "c,"] + ["d%03d" % i for i in range(300)])
    nums = [0.25, 0.5, 1, 2, 2.5, 10] + [11.25 + 3 * i for i in range(300)]              # all positive, no zero


def _edge_times():
    from datetime import datetime, timedelta, timezone
    U = timezone.utc
    us = timedelta(microseconds=1)
    base = [
        datetime(1700, 1, 1, 0, 0, 0, 0, U), datetime(1883, 11, 18, 20, 0, 0, 0, U), datetime(1969, 12, 31, 23, 59, 59, 999999, U),
        datetime(1970, 1, 1, 0, 0, 0, 0, U), datetime(1970, 1, 1, 0, 0, 0, 1, U),
        datetime(2001, 9, 9, 1, 46, 39, 999999, U), datetime(2001, 9, 9, 1, 46, 40, 0, U),
        # America/Los_Angeles: gap 2021-03-14 10:00Z, fold 2021-11-07 09:00Z (and the hour before)
        datetime(2021, 3, 14, 9, 59, 59, 999999, U), datetime(2021, 3, 14, 10, 0, 0, 0, U), datetime(2021, 3, 14, 10, 30, 0, 0, U),
        datetime(2021, 11, 7, 8, 30, 0, 0, U), datetime(2021, 11, 7, 9, 0, 0, 0, U), datetime(2021, 11, 7, 9, 30, 0, 0, U),
        # Australia/Lord_Howe: 30-minute DST, 2021-04-03 15:00Z (fold) and 2021-10-02 15:30Z (gap)
        datetime(2021, 4, 3, 14, 45, 0, 0, U), datetime(2021, 4, 3, 15, 15, 0, 0, U), datetime(2021, 10, 2, 15, 29, 59, 999999, U),
        datetime(2021, 10, 2, 15, 30, 0, 0, U),
        # Asia/Kathmandu (+05:45, and +05:30 before 1986)
        datetime(1985, 12, 31, 18, 29, 59, 999999, U), datetime(1985, 12, 31, 18, 30, 0, 0, U),
        datetime(2024, 2, 29, 23, 59, 59, 999999, U), datetime(2024, 3, 1, 0, 0, 0, 0, U),
    ]
    base = sorted(set(base))
    t = base[-1]
    out = list(base)
    for i in range(300):
        t = t + timedelta(hours=1, microseconds=i)
        out.append(t)
    return out


class TimeEdge(concretise.Theme):
    """Instants at adjacent microseconds, around DST gaps / folds of the test zones, at the
    epoch and the early range end; inputs rendered in other UTC offsets or as naive local values."""
    name = "time-edge"
    times = _edge_times()
    naive_inputs = True


class TimeFar(concretise.Theme):
    """Range ends (1700 .. 2239-12-31T23:59:59.999999) at adjacent microseconds."""
    name = "time-far"
    naive_inputs = True

    @staticmethod
    def _t():
        from datetime import datetime, timedelta, timezone
        U = timezone.utc
        us = timedelta(microseconds=1)
        end = datetime(2239, 12, 31, 23, 59, 59, 999999, U)
        pts = [datetime(1700, 1, 1, 0, 0, 0, 0, U), datetime(1700, 1, 1, 0, 0, 0, 1, U), datetime(1900, 1, 1, 0, 0, 0, 0, U),
               datetime(2038, 1, 19, 3, 14, 7, 999999, U), datetime(2038, 1, 19, 3, 14, 8, 0, U),
               datetime(2106, 2, 7, 6, 28, 15, 999999, U), datetime(2106, 2, 7, 6, 28, 16, 0, U)]
        pts += [end - (60 - i) * us for i in range(61)]
        pts += [end - timedelta(days=400) + timedelta(hours=i) for i in range(30)]
        pts += [datetime(1901, 1, 1, tzinfo=U) + timedelta(days=30 * i, microseconds=i) for i in range(300)]   # filler between the interesting ends
        return sorted(set(pts))
    times = _t.__func__()


def _random_tables(seed):
    """value tables drawn at random (and then sorted): numbers of mixed sign, magnitude and type, strings over a
    CSV-hostile alphabet, key names that contain one another, instants at irregular microsecond distances"""
    import random
    from datetime import datetime, timedelta, timezone
    r = random.Random(seed)
    n = 306

    def numbers():
        out = set()
        while len(out) < 6:                 # the generators draw their values from the six lowest ranks
            k = r.random()
            if k < 0.35:
                v = r.randrange(-6, 7)
            elif k < 0.6:
                v = round(r.uniform(-50, 50), r.choice([1, 2, 3]))
            elif k < 0.7:
                v = r.randrange(-10 ** 9, 10 ** 9)
            elif k < 0.85:
                v = r.uniform(-1, 1) * 10.0 ** r.randrange(-8, 12)
            else:
                v = float(r.randrange(-3, 4))
            if v not in out:
                out.add(v)
        low = sorted(out)
        top = int(max(1, low[-1])) + 1
        return low + [top + 0.5 * i for i in range(300)]

    def strings(nonempty, alphabet):
        out = set()
        while len(out) < 6:
            s_ = "".join(r.choice(alphabet) for _ in range(r.choice([0, 1, 1, 2, 2, 3, 4, 6])))
            if (nonempty and not s_) or s_ == "_none":
                continue
            out.add(s_)
        return sorted(out) + ["\U0001F600%03d" % i for i in range(300)]        # filler sorts after every alphabet character

    def keys(stem):
        ks = {stem}
        while len(ks) < 3:
            base = r.choice(sorted(ks))
            ks.add(base + r.choice(["_", "_1", "x", "_" + stem, " ", "1"]))
        return sorted(ks)
    t = datetime(1990, 1, 1, tzinfo=timezone.utc) + timedelta(days=r.randrange(0, 12000), microseconds=r.randrange(10 ** 6))
    times = []
    for _ in range(400):
        times.append(t)
        t = t + timedelta(microseconds=r.choice([1, 1, 2, 999, 10 ** 6, 3599 * 10 ** 6, 86400 * 10 ** 6 + 1, r.randrange(1, 10 ** 9)]))
    alphabet = "aab_,;\"' \n\rZé0"
    return {"nums": numbers(), "strs": strings(False, alphabet), "meas": strings(True, alphabet), "times": times,
            "tagkeys": keys(r.choice(["k", "_tag", "t", "time"])), "fieldkeys": keys(r.choice(["f", "_field", "f_", "measurement"]))}


def _random_theme(seed):
    tabs = _random_tables(seed)
    cls = type("Random%d" % seed, (concretise.Theme,), dict(tabs, name="random:%d" % seed, regex=False))
    return cls()


_ALL = {}


def get(name):
    if name not in _ALL:
        if name.startswith("random:"):
            t = _random_theme(int(name.split(":")[1]))
        else:
            t = {"plain": concretise.Theme, "bigint": BigInt, "csv-hostile": Hostile, "latin": Latin, "time-edge": TimeEdge, "time-far": TimeFar}[name]()
        t.check()
        _ALL[name] = t
    return _ALL[name]
