"""Themes: order-embeddings of the specification's ranks into real values
(DESIGN.md section 3.1).  `plain` lives in concretise.Theme."""
import concretise


class Hostile(concretise.Theme):
    """CSV-hostile strings: delimiters, quotes, CR/LF, control characters, leading and
    trailing blanks, reserved prefixes, non-ASCII; same order structure as `plain`."""
    name = "csv-hostile"
    regex = False
    meas = sorted([" m,0", 'a"q"', "a,b\r\nc", "b\nnl", "ba;'x'", "cé\U0001F600"] + ['d%03d,"x"' % i for i in range(300)])
    strs = sorted(["", "a,1", 'a"2"', "b\r\n3", "bü\n4", "c\t;5 "] + ["d%03d\n" % i for i in range(300)])
    tagkeys = sorted(["k,1", "_tag_x", 't_"k3"'])
    fieldkeys = sorted(["f\n1", "_field_y", "f_ 3"])


class Latin(concretise.Theme):
    """Strings encodable in latin-1 (for the encoding matrix of C04)."""
    name = "latin"
    regex = False
    meas = sorted(["0m", "aé", "ab,ü", 'b"ñ"', "ba\n", "c"] + ["d%03d" % i for i in range(300)])
    strs = sorted(["0", "aé", "ab;è", "b\r\n", "baß", "c,"] + ["d%03d" % i for i in range(300)])


def _edge_times():
    from datetime import datetime, timedelta, timezone
    U = timezone.utc
    us = timedelta(microseconds=1)
    base = [
        datetime(1700, 1, 1, 0, 0, 0, 0, U), datetime(1883, 11, 18, 20, 0, 0, 0, U), datetime(1969, 12, 31, 23, 59, 59, 999999, U),
        datetime(1970, 1, 1, 0, 0, 0, 0, U), datetime(1970, 1, 1, 0, 0, 0, 1, U),
        datetime(2001, 9, 9, 1, 46, 39, 999999, U), datetime(2001, 9, 9, 1, 46, 40, 0, U),
        # America/Los_Angeles: gap 2021-03-14 10:00Z, fold 2021-11-07 09:00Z (and the hour before)
        datetime(2021, 3, 14, 9, 59, 59, 999999, U), datetime(2021, 3, 14, 10, 0, 0, 0, U), datetime(2021, 3, 14, 10, 30, 0, 0, U),
        datetime(2021, 11, 7, 8, 30, 0, 0, U), datetime(2021, 11, 7, 9, 0, 0, 0, U), datetime(2021, 11, 7, 9, 30, 0, 0, U),
        # Australia/Lord_Howe: 30-minute DST, 2021-04-03 15:00Z (fold) and 2021-10-02 15:30Z (gap)
        datetime(2021, 4, 3, 14, 45, 0, 0, U), datetime(2021, 4, 3, 15, 15, 0, 0, U), datetime(2021, 10, 2, 15, 29, 59, 999999, U),
        datetime(2021, 10, 2, 15, 30, 0, 0, U),
        # Asia/Kathmandu (+05:45, and +05:30 before 1986)
        datetime(1985, 12, 31, 18, 29, 59, 999999, U), datetime(1985, 12, 31, 18, 30, 0, 0, U),
        datetime(2024, 2, 29, 23, 59, 59, 999999, U), datetime(2024, 3, 1, 0, 0, 0, 0, U),
    ]
    base = sorted(set(base))
    t = base[-1]
    out = list(base)
    for i in range(300):
        t = t + timedelta(hours=1, microseconds=i)
        out.append(t)
    return out


class TimeEdge(concretise.Theme):
    """Instants at adjacent microseconds, around DST gaps / folds of the test zones, at the
    epoch and the early range end; inputs rendered in other UTC offsets or as naive local values."""
    name = "time-edge"
    times = _edge_times()
    naive_inputs = True


class TimeFar(concretise.Theme):
    """Range ends (1700 .. 2239-12-31T23:59:59.999999) at adjacent microseconds."""
    name = "time-far"
    naive_inputs = True

    @staticmethod
    def _t():
        from datetime import datetime, timedelta, timezone
        U = timezone.utc
        us = timedelta(microseconds=1)
        end = datetime(2239, 12, 31, 23, 59, 59, 999999, U)
        pts = [datetime(1700, 1, 1, 0, 0, 0, 0, U), datetime(1700, 1, 1, 0, 0, 0, 1, U), datetime(1900, 1, 1, 0, 0, 0, 0, U),
               datetime(2038, 1, 19, 3, 14, 7, 999999, U), datetime(2038, 1, 19, 3, 14, 8, 0, U),
               datetime(2106, 2, 7, 6, 28, 15, 999999, U), datetime(2106, 2, 7, 6, 28, 16, 0, U)]
        pts += [end - (60 - i) * us for i in range(61)]
        pts += [end - timedelta(days=400) + timedelta(hours=i) for i in range(30)]
        pts += [datetime(1901, 1, 1, tzinfo=U) + timedelta(days=30 * i, microseconds=i) for i in range(300)]   # filler between the interesting ends
        return sorted(set(pts))
    times = _t.__func__()


_ALL = {}


def get(name):
    if name not in _ALL:
        t = {"plain": concretise.Theme, "csv-hostile": Hostile, "latin": Latin, "time-edge": TimeEdge, "time-far": TimeFar}[name]()
        t.check()
        _ALL[name] = t
    return _ALL[name]
