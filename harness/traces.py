"""Record executions of the real package as traces and have TLC judge them
against spec/Trace_TinyFlux.tla.  Verdicts are total: every trace gets exactly
one VERDICT line naming the first failing clause (if any)."""
import json
import multiprocessing as mp
import os
import shutil
import tempfile

import contextlib

import common
import concretise
import driver
import ioproxy
import themes
import tlc

CONFIGS = [("mem", 1), ("mem", 0), ("csv", 1), ("csv", 0)]

READ_C01 = {"search", "count", "contains", "get", "select"}
READ_C07 = {"all", "len", "iter", "repr", "get_measurements", "get_tag_keys", "get_tag_values", "get_field_keys",
            "get_field_values", "get_timestamps"}


def owner(a, clause, exc):
    """Which property owns a failing clause (DESIGN.md section 7)."""
    op = a["op"]
    if clause in ("valid", "index"):
        return "C06"
    if op == "bad":
        return "C14"
    if clause == "raises" and not exc:      # the call had to raise and did not
        return "C11"
    if clause != "raises" and exc:          # state after a raised call
        return "C11"
    # (clause "raises" with exc set: the call raised although it had to answer - owned by the operation's property)
    if a.get("via") == "handle":
        return "C10"
    if op in READ_C01:
        return "C01"
    if op in READ_C07:
        return "C07"
    if op in ("remove", "drop_measurement", "remove_all"):
        return "C02"
    if op in ("update", "update_all"):
        return "C03"
    if op in ("insert", "insert_multiple"):
        return "C01"          # the contents every later read is judged on (C04 / C08 own it too in their own runs)
    return "C06"


_W = {}


def _init(repo, scratch, tz=None):
    import sys
    if tz:
        import time
        os.environ["TZ"] = tz
        time.tzset()
    if repo not in sys.path:
        sys.path.insert(0, repo)
    import tinyflux
    import tinyflux.storages  # noqa
    import builtins, io
    # reindex() prints "Index already valid."; keep worker output quiet
    _W["tf"] = tinyflux
    _W["th"] = concretise.Theme()
    _W["scratch"] = scratch


def _record(job):
    """job = (trace id, kind, auto_index, ops, battery, ntk, nfk[, opts])
    opts: {"io": True} records I/O-level observations through the run-time proxies (CSV only);
          {"csv": {...}} CSVStorage keyword arguments."""
    tid, kind, ai, ops, battery, ntk, nfk = job[:7]
    opts = job[7] if len(job) > 7 else {}
    tf, th = _W["tf"], _W["th"]
    if opts.get("theme"):
        th = themes.get(opts["theme"])
    path = None
    tmpdir = None
    if kind == "csv":
        d0 = tempfile.mkdtemp(prefix="t%d-" % os.getpid(), dir=_W["scratch"])
        path = os.path.join(d0, "db.csv")
        tmpdir = os.path.join(d0, "tmp")
        os.mkdir(tmpdir)
        if opts.get("symlink"):
            os.mkdir(os.path.join(d0, "real"))        # the database path is a symbolic link to a file elsewhere
            open(os.path.join(d0, "real", "data.csv"), "w").close()
            os.symlink(os.path.join(d0, "real", "data.csv"), path)
        if opts.get("hardlink"):
            os.mkdir(os.path.join(d0, "real"))        # the database file has a second name (a hard-link "snapshot" elsewhere)
            open(path, "w").close()
            os.link(path, os.path.join(d0, "real", "snap.csv"))
    want_io = bool(opts.get("io")) and kind == "csv"
    nostore = bool(opts.get("nostore"))
    mode = opts.get("mode")
    csv_opts = dict(opts.get("csv") or {})
    events = []
    pre_events, pre, pre_valid0 = [], None, 0
    init, valid0 = [], 0
    saved_tmp = tempfile.tempdir
    ctx = ioproxy.Installed(tf.storages, path) if want_io else contextlib.nullcontext(None)
    d = None
    try:
        if tmpdir:
            tempfile.tempdir = tmpdir
        if kind == "csv" and (opts.get("prefill") or mode in ("r", "a")):
            pre = driver.Db(tf, th, kind, False, path=path, ntk=ntk, nfk=nfk,
                            csv_opts={k: v for k, v in csv_opts.items() if k != "access_mode"})
            pts = opts.get("prefill_points") or []
            pre_valid0 = pre.valid()
            for i in range(0, len(pts), 500):
                # the prefill is a history of its own (judged like any other): batches of up to 500 points
                pa = {"op": "insert_multiple", "ps": pts[i:i + 500], "m": -1, "bad": 0}
                pexc, pres = pre.execute(pa)
                if csv_opts.get("flush_on_insert") is False:
                    continue                      # (rows may still sit in the buffer: nothing to compare the file with yet)
                pre_events.append({"a": pa, "exc": pexc, "res": pres, "store": pre.contents(), "valid": pre.valid(),
                                   "ix": {"n": 0, "q": [], "live": [], "fresh": []}})
            pre.close()
        if mode:
            csv_opts["access_mode"] = mode
        with ctx as rec:
            try:
                d = driver.Db(tf, th, kind, bool(ai), path=path, ntk=ntk, nfk=nfk, csv_opts=csv_opts)
            except Exception as e:
                if pre is None:
                    raise
                # the database cannot be opened on the file the prefill left behind: that is a verdict, not a harness failure
                init = pre.contents()
                events.append({"a": {"op": "reopen"}, "exc": type(e).__name__, "res": -1, "store": init, "valid": 0,
                               "ix": {"n": 0, "q": [], "live": [], "fresh": []}})
                ops = []
            if d is not None:
                d.reading_batches = not want_io       # (a producer that reads the database is itself I/O: not while I/O is being judged)
            if kind == "mem" and opts.get("prefill_points"):
                d.db.insert_multiple([th.point(tf, ap) for ap in opts["prefill_points"]])
            if d is not None:
                init = d.contents()
                valid0 = d.valid()
            last_write = None
            reads_done = []
            for a in ops:
                if a["op"] == "__repeat__":
                    if last_write is None:
                        continue
                    a = last_write                 # the previous remove / update exactly as it was resolved
                    if "u" in a and a["u"].get("fdk") in (1, 2, 4):
                        # ... with its numbers in their other representation (1.0 for 1, -0.0 for 0): equal values, still no change
                        a = dict(a, u=dict(a["u"], alt=1 - a["u"].get("alt", 0)))
                if a["op"] == "__reread__":
                    if not reads_done:
                        continue
                    a = reads_done[-1 - a.get("back", 0) % min(4, len(reads_done))]     # an earlier read exactly as it was resolved
                if a.get("q_from_read") and reads_done and "q" in reads_done[-1]:
                    a = {k: v for k, v in a.items() if k not in ("adapt", "q_from_read")}
                    a["q"] = reads_done[-1]["q"]          # the write selects by the very query the last read used
                if "adapt" in a:
                    a = adapt_op(a, events[-1]["store"] if events else init)
                if a["op"] in ("remove", "drop_measurement", "update"):
                    last_write = a
                if a["op"] in READ_C01 | READ_C07 and a not in reads_done[-4:]:
                    reads_done.append(a)
                if rec is not None:
                    rec.events = []
                    before = rec.db_bytes()
                    tmp_before = _leftovers(tmpdir, os.path.dirname(path))
                exc, res = d.execute(a)
                if nostore:
                    ev = {"a": a, "exc": exc, "res": res, "store": [], "valid": d.valid(), "nostore": 1,
                          "ix": {"n": 0, "q": [], "live": [], "fresh": []}}
                    if rec is not None and a["op"] in ("insert", "insert_multiple"):
                        # no contents projection here, but the I/O calls of the insert are still observable
                        ev["io"] = io_obs(d, rec, before, a, tmpdir, os.path.dirname(path), tmp_before, lite=True)
                    if a["op"] == "reopen" and not exc:
                        data = open(path, "rb").read()
                        ev["io"] = {"snaps": [], "file": d.decode_bytes(data), "reopened": d.reopened_contents(),
                                    "same": 1, "tmp": 0, "calls": []}
                    events.append(ev)
                    continue
                store = d.contents()
                if a["op"] in ("insert", "insert_multiple") and (a.get("p", {}).get("t") == -5 or any(p["t"] == -5 for p in a.get("ps", []))):
                    # the stamp this call handed out: the newest dynamic rank among the stored times
                    stamps = [p["t"] for p in store if p["t"] >= th.NOW_BASE]
                    a = dict(a, now=max(stamps) if stamps else -5)
                ev = {"a": a, "exc": exc, "res": res, "store": store, "valid": d.valid(),
                      "ix": d.index_obs(store, battery)}
                if rec is not None:
                    ev["io"] = io_obs(d, rec, before, a, tmpdir, os.path.dirname(path), tmp_before)
                events.append(ev)
                if any(p["t"] == driver.UNKNOWN for p in store):
                    break                # the specification cannot adopt such contents; the trace ends here
    finally:
        tempfile.tempdir = saved_tmp
        if d is not None:
            d.close()
        if path:
            shutil.rmtree(os.path.dirname(path), ignore_errors=True)
    out = {"id": tid, "kind": kind, "auto_index": ai, "init": init, "valid0": valid0, "events": events}
    if mode:
        out["mode"] = mode
    if pre_events:
        out["pre"] = {"id": tid + "~pre", "kind": "csv", "auto_index": 0, "init": [], "valid0": pre_valid0, "events": pre_events}
    return out


def prefill_traces(recorded):
    """detach the prefill histories recorded alongside (see _record) and return them as traces of their own"""
    return [t.pop("pre") for t in recorded if "pre" in t]


def _record_fault(job):
    """job = (id, auto_index, ops, j, k, after, extra point, read ops)
    Re-run ops[:j], then ops[j] with an OSError injected at its k-th I/O call; observe the live
    object, one more insert, close, and the file."""
    tid, ai, ops, j, k, after, extra, reads = job[:8]
    fopts = job[8] if len(job) > 8 else {}
    tf, th = _W["tf"], _W["th"]
    d0 = tempfile.mkdtemp(prefix="f%d-" % os.getpid(), dir=_W["scratch"])
    path = os.path.join(d0, "db.csv")
    tmpdir = os.path.join(d0, "tmp")
    os.mkdir(tmpdir)
    saved_tmp = tempfile.tempdir
    d = None
    try:
        tempfile.tempdir = tmpdir
        with ioproxy.Installed(tf.storages, path) as rec:
            d = driver.Db(tf, th, "csv", bool(ai), path=path, ntk=3, nfk=3, csv_opts=dict(fopts.get("csv") or {}))
            events = []
            init = d.contents()
            valid0 = d.valid()
            for a in ops[:j]:
                exc, res = d.execute(a)
                store = d.contents()
                events.append({"a": a, "exc": exc, "res": res, "store": store, "valid": d.valid(),
                               "ix": {"n": len(store), "q": [], "live": [], "fresh": []}})
            a = ops[j]
            rec.events = []
            rec.fault_at = rec.ncalls + k
            rec.fault_after = bool(after)
            oserr = 0
            try:
                res = driver.coerce(a["op"], d._run(a))
                exc = ""
            except BaseException as e:  # noqa
                exc = type(e).__name__
                oserr = 1 if isinstance(e, OSError) else 0
                res = 0
            injected = any(e.get("fault") for e in rec.events)
            rec.fault_at = None
            fault = {"oserr": oserr, "injected": 1 if injected else 0,
                     "at": next((e["call"] + ":" + e["f"] for e in rec.events if e.get("fault")), "")}
            # files left behind in the temp / database directory once the call has returned or raised (not counted when the
            # failed call was the removal itself: the operating system refused it)
            fault["tmp"] = 0 if fault["at"].startswith("unlink") else len(_leftovers(tmpdir, d0))
            # the live object's own storage
            try:
                scan = [d.abs_point(p) for p in list(iter(d.db))]
                fault["scan"], fault["scan_raised"] = scan, 0
            except BaseException:
                fault["scan"], fault["scan_raised"] = [], 1
            # what the file holds right now (the object's storage as far as anybody else can tell)
            was = rec.enabled
            rec.enabled = False
            fault["file_now"] = d.decode_bytes(rec.db_bytes() or b"")
            rec.enabled = was
            # the index right after the fault: if it claims to be valid it must mirror the object's own storage
            fault["valid"] = d.valid()
            fault["ix"] = d.index_obs(fault["scan"], []) if not fault["scan_raised"] else {"n": 0, "q": [], "live": [], "fresh": []}
            rr = []
            for ra in reads:
                e2, r2 = d.execute(ra)
                rr.append({"a": ra, "exc": e2, "res": r2})
            fault["reads"] = rr
            # a later rewrite on the same object: remove the first point of the scan by its instant
            rm = {"a": {"op": "remove", "q": {"k": "time", "key": 0, "key2": 0, "mf": 0, "op": "eq",
                                              "v": fault["scan"][0]["t"] if fault["scan"] else 0, "tf": 0}, "m": -1}}
            if fault["scan"] and fault["scan"][0]["t"] < 0:
                rm["a"]["q"]["op"] = "noop"
            rm["exc"], rm["res"] = d.execute(rm["a"])
            try:
                rm["scan"], rm["scan_raised"] = [d.abs_point(p) for p in list(iter(d.db))], 0
            except BaseException:
                rm["scan"], rm["scan_raised"] = [], 1
            fault["rm"] = rm
            e3, r3 = d.execute({"op": "insert", "p": extra, "m": -1, "compact": 0})
            fault["ins_ok"] = 0 if e3 else 1
            fault["extra"] = extra
            try:
                d.db.close()
            except BaseException:
                pass
            rec.enabled = False
            data = rec.db_bytes() or b""
            fault["final"] = d.decode_bytes(data)
            store = d.contents()
            events.append({"a": a, "exc": exc, "res": res, "store": store, "valid": 0, "nostore": 1,
                           "ix": {"n": 0, "q": [], "live": [], "fresh": []}, "fault": fault})
    finally:
        tempfile.tempdir = saved_tmp
        if d is not None:
            d.close()
        shutil.rmtree(d0, ignore_errors=True)
    return {"id": tid, "kind": "csv", "auto_index": ai, "init": init, "valid0": valid0, "events": events}


def record_faults(jobs, nproc=16):
    scratch = tlc.mkscratch("flt-")
    try:
        with mp.Pool(nproc, initializer=_init, initargs=(common.REPO, scratch)) as pool:
            return pool.map(_record_fault, jobs, chunksize=max(1, len(jobs) // (nproc * 8)))
    finally:
        shutil.rmtree(scratch, ignore_errors=True)


def adapt_op(a, store):
    """Resolve an adaptive operation against the contents stored right now (see gen.Gen.adapt)."""
    if "adapt" not in a:
        return a
    a = dict(a)
    r = a.pop("adapt")
    if a.get("negfield") == 2:
        return a                 # keep the generated shape (negation buried under another negation)
    pts = [p for p in store if p["t"] >= 0]
    if not pts:
        return a
    p = pts[r % len(pts)]
    r //= 97
    def atom(k, key, op, v):
        return {"k": k, "key": key, "key2": 0, "mf": 0, "op": op, "v": v, "tf": 0}
    cands = [atom("time", 0, ["eq", "le", "ge", "lt", "gt", "ne"][r % 6], p["t"]), atom("meas", 0, ["eq", "ne"][r % 2], p["m"])]
    for i, v in enumerate(p["tg"]):
        if v != -2:
            cands.append(atom("tag", i + 1, ["eq", "ne", "exists"][r % 3], v))
    for i, v in enumerate(p["fd"]):
        if v != -2:
            cands.append(atom("field", i + 1, ["eq", "ge", "exists", "le"][r % 4] if v >= 0 else "eq", v))
    q = cands[(r // 7) % len(cands)]
    if (r // 50) % 4 == 0:
        q = {"k": "not", "a": q}
    elif (r // 50) % 4 == 1 and "q" in a:
        q = {"k": "and", "a": q, "b": a["q"]} if (r // 200) % 2 else {"k": "or", "a": q, "b": a["q"]}
    if a.get("negfield") == 1 and "q" in a and a["q"]["k"] == "and":
        nf = a["q"]["b"] if a["q"]["b"]["k"] == "not" else a["q"]["a"]
        q = {"k": "and", "a": q, "b": nf} if (r // 3) % 2 else {"k": "and", "a": nf, "b": q}
    a["q"] = q
    return a


def _leftovers(tmpdir, dbdir):
    return sorted(os.listdir(tmpdir)) + sorted(f for f in os.listdir(dbdir) if f not in ("db.csv", "tmp", "real"))


def io_obs(d, rec, before, a, tmpdir, dbdir, tmp_before, lite=False):
    """Summarise the I/O calls of one API call for the trace specification."""
    was = rec.enabled
    rec.enabled = False
    try:
        snaps, seen = [], set()
        snap_calls = []
        calls = []
        old_len = len(before or b"")
        for e in rec.events:
            b = e["bytes"]
            if b is not None and b not in seen:
                seen.add(b)
                snaps.append(d.decode_bytes(b))
                snap_calls.append(e["call"] + ":" + e["f"])
            if e["f"] == "db":
                cur = b or b""
                info = e.get("info", {})
                atend = 1
                if e["call"] == "truncate":
                    atend = 1 if len(cur) >= old_len else 0
                calls.append({"call": e["call"], "prefix": 1 if cur[:old_len] == (before or b"")[:old_len] and len(cur) >= old_len else 0,
                              "atend": atend})
        after = rec.db_bytes()
        left = [f for f in _leftovers(tmpdir, dbdir) if f not in tmp_before]
        if lite:
            return {"snaps": [], "same": 1 if after == before else 0, "tmp": len(left), "calls": calls, "ncalls": len(rec.events),
                    "snap_calls": [], "counted": []}
        return {"snaps": snaps, "file": d.decode_bytes(after or b""), "reopened": d.reopened_contents(),
                "same": 1 if after == before else 0, "tmp": len(left), "calls": calls, "ncalls": len(rec.events),
                "snap_calls": snap_calls,
                "counted": [e["call"] + ":" + e["f"] for e in rec.events if e.get("counted", True)]}
    finally:
        rec.enabled = was


def record_all(jobs, nproc=16, tz=None):
    scratch = tlc.mkscratch("rec-")
    try:
        with mp.Pool(nproc, initializer=_init, initargs=(common.REPO, scratch, tz)) as pool:
            return pool.map(_record, jobs, chunksize=max(1, len(jobs) // (nproc * 8)))
    finally:
        shutil.rmtree(scratch, ignore_errors=True)


MAX_EVENTS_PER_RUN = 8000       # TLC re-reads the JSON once per worker: many small TLC runs side by side beat one big one
PARALLEL_TLC = 7
WORKERS_PER_TLC = 2


MAX_BYTES_PER_RUN = 24 * 1000 * 1000      # (estimated) size of one input file: the JSON reader gives up on very large documents


def _weight(t):
    """rough size of a trace as JSON"""
    w = 200 + 70 * len(t.get("init", []))
    for e in t["events"]:
        w += 300 + 70 * (len(e.get("store", [])) + len(e["a"].get("ps", [])))
        io = e.get("io")
        if io:
            w += 70 * (sum(len(s) for s in io.get("snaps", [])) + len(io.get("file", [])) + len(io.get("reopened", []))) + 30 * len(io.get("calls", []))
        f = e.get("fault")
        if f:
            w += 70 * (len(f.get("scan", [])) + len(f.get("file_now", [])) + len(f.get("final", [])) + len(f.get("rm", {}).get("scan", []))) \
                + 100 * len(json.dumps(f.get("reads", []))) // 100
    return w


def judge(traces, workers=16, timeout=3000):
    """Returns ({trace id: verdict dict}, stats).  The traces are judged by several TLC processes side by side
    (chunks of bounded size, grouped by auto_index); `workers` only caps the parallelism."""
    import concurrent.futures
    verdicts = {}
    stats = {"states": 0, "transitions": 0, "cmd": "", "tlc_runs": 0}
    todo = []
    for ai in (1, 0):
        part = [t for t in traces if t["auto_index"] == ai]
        chunk, n = [], 0
        chunks = []
        size = 0
        for t in part:
            chunk.append(t)
            n += len(t["events"]) + 1
            size += _weight(t)
            if n >= MAX_EVENTS_PER_RUN or size >= MAX_BYTES_PER_RUN:
                chunks.append(chunk)
                chunk, n, size = [], 0, 0
        if chunk:
            chunks.append(chunk)
        todo += [(c, ai) for c in chunks]
    par = max(1, min(PARALLEL_TLC, workers // WORKERS_PER_TLC if workers >= WORKERS_PER_TLC else 1))
    with concurrent.futures.ThreadPoolExecutor(max_workers=par) as ex:
        futs = [ex.submit(_judge_chunk, c, ai, min(workers, WORKERS_PER_TLC), timeout, verdicts, stats) for c, ai in todo]
        for f in futs:
            f.result()
    return verdicts, stats


def _judge_chunk(part, ai, workers, timeout, verdicts, stats):
    scratch = tlc.mkscratch("judge-")
    try:
        path = os.path.join(scratch, "traces.json")
        with open(path, "w") as fh:
            json.dump({"traces": [{k: t[k] for k in ("id", "init", "valid0", "events", "mode") if k in t}
                                  for t in part]}, fh)
        cfg = tlc.cfg_text(init="TraceInit", next_="TraceNext", constants={"AutoIndex": bool(ai)},
                           invariants=["Verdict", "TraceTyped"])
        r = tlc.run_tlc("Trace_TinyFlux", cfg, env={"VERIF_IN": path}, workers=workers, timeout=timeout, heap="3g")
        tlc.require_clean(r, "Trace_TinyFlux (auto_index=%d)" % ai)
        if r.violated:
            raise tlc.MachineryError("trace spec invariant violated: %s\n%s" % (r.violated, r.tail(40)))
        got = {v["id"]: v for v in r.lines("VERDICT")}
        missing = [t["id"] for t in part if t["id"] not in got]
        if missing:
            raise tlc.MachineryError("no verdict for %d trace(s), e.g. %r\n%s" % (len(missing), missing[:3], r.tail(30)))
        verdicts.update(got)
        stats["states"] += r.distinct
        stats["transitions"] += r.states
        stats["cmd"] = r.cmd
        stats["tlc_runs"] += 1
    finally:
        shutil.rmtree(scratch, ignore_errors=True)


def errors(verdict):
    """list of error records [step, clause, expected] of a verdict (TLC prints <<>> as {})"""
    e = verdict.get("errs", [])
    return [] if e == {} else e


def failing_event(trace, err):
    return trace["events"][err["step"] - 1]
