"""Record executions of the real package as traces and have TLC judge them
against spec/Trace_TinyFlux.tla.  Verdicts are total: every trace gets exactly
one VERDICT line naming the first failing clause (if any)."""
import json
import multiprocessing as mp
import os
import shutil
import tempfile

import common
import concretise
import driver
import tlc

CONFIGS = [("mem", 1), ("mem", 0), ("csv", 1), ("csv", 0)]

READ_C01 = {"search", "count", "contains", "get", "select"}
READ_C07 = {"all", "len", "iter", "get_measurements", "get_tag_keys", "get_tag_values", "get_field_keys",
            "get_field_values", "get_timestamps"}


def owner(a, clause, exc):
    """Which property owns a failing clause (DESIGN.md section 7)."""
    op = a["op"]
    if clause in ("valid", "index"):
        return "C06"
    if op == "bad":
        return "C14"
    if clause == "raises":
        return "C11" if op in ("insert_multiple", "update", "update_all") else ("C09" if op in READ_C01 else "C11")
    if exc:                      # state after a raised call
        return "C11"
    if a.get("via") == "handle":
        return "C10"
    if op in READ_C01:
        return "C01"
    if op in READ_C07:
        return "C07"
    if op in ("remove", "drop_measurement", "remove_all"):
        return "C02"
    if op in ("update", "update_all"):
        return "C03"
    if op in ("insert", "insert_multiple"):
        return "C04" if clause == "store" else "C01"
    return "C06"


_W = {}


def _init(repo, scratch):
    import sys
    if repo not in sys.path:
        sys.path.insert(0, repo)
    import tinyflux
    import tinyflux.storages  # noqa
    import builtins, io
    # reindex() prints "Index already valid."; keep worker output quiet
    _W["tf"] = tinyflux
    _W["th"] = concretise.Theme()
    _W["scratch"] = scratch


def _record(job):
    """job = (trace id, kind, auto_index, ops, battery, ntk, nfk)"""
    tid, kind, ai, ops, battery, ntk, nfk = job
    tf, th = _W["tf"], _W["th"]
    path = None
    if kind == "csv":
        fd, path = tempfile.mkstemp(prefix="t%d-" % os.getpid(), suffix=".csv", dir=_W["scratch"])
        os.close(fd)
        os.unlink(path)
    d = driver.Db(tf, th, kind, bool(ai), path=path, ntk=ntk, nfk=nfk)
    events = []
    try:
        init = d.contents()
        valid0 = d.valid()
        for a in ops:
            exc, res = d.execute(a)
            store = d.contents()
            ev = {"a": a, "exc": exc, "res": res, "store": store, "valid": d.valid(),
                  "ix": d.index_obs(store, battery)}
            events.append(ev)
            if any(p["t"] == driver.UNKNOWN for p in store):
                break
    finally:
        d.close()
        if path:
            for f in (path,):
                try:
                    os.unlink(f)
                except OSError:
                    pass
    return {"id": tid, "kind": kind, "auto_index": ai, "init": init, "valid0": valid0, "events": events}


def record_all(jobs, nproc=16):
    scratch = tlc.mkscratch("rec-")
    try:
        with mp.Pool(nproc, initializer=_init, initargs=(common.REPO, scratch)) as pool:
            return pool.map(_record, jobs, chunksize=max(1, len(jobs) // (nproc * 8)))
    finally:
        shutil.rmtree(scratch, ignore_errors=True)


def judge(traces, workers=16, timeout=3000):
    """Returns ({trace id: verdict dict}, stats).  One TLC run per auto_index value."""
    verdicts = {}
    stats = {"states": 0, "transitions": 0, "cmd": ""}
    for ai in (1, 0):
        part = [t for t in traces if t["auto_index"] == ai]
        if not part:
            continue
        scratch = tlc.mkscratch("judge-")
        try:
            path = os.path.join(scratch, "traces.json")
            with open(path, "w") as fh:
                json.dump({"traces": [{"id": t["id"], "init": t["init"], "valid0": t["valid0"], "events": t["events"]}
                                      for t in part]}, fh)
            cfg = tlc.cfg_text(init="TraceInit", next_="TraceNext", constants={"AutoIndex": bool(ai)},
                               invariants=["Verdict", "TraceTyped"])
            r = tlc.run_tlc("Trace_TinyFlux", cfg, env={"VERIF_IN": path}, workers=workers, timeout=timeout)
            tlc.require_clean(r, "Trace_TinyFlux (auto_index=%d)" % ai)
            if r.violated:
                raise tlc.MachineryError("trace spec invariant violated: %s\n%s" % (r.violated, r.tail(40)))
            got = {v["id"]: v for v in r.lines("VERDICT")}
            missing = [t["id"] for t in part if t["id"] not in got]
            if missing:
                raise tlc.MachineryError("no verdict for %d trace(s), e.g. %r\n%s" % (len(missing), missing[:3], r.tail(30)))
            verdicts.update(got)
            stats["states"] += r.distinct
            stats["transitions"] += r.states
            stats["cmd"] = r.cmd
        finally:
            shutil.rmtree(scratch, ignore_errors=True)
    return verdicts, stats


def failing_event(trace, verdict):
    step = verdict["err"]["step"]
    return trace["events"][step - 1]
