"""Shared plumbing of the checks: locating the implementation, evidence files,
known findings, VIOLATION / KNOWN-FINDING lines, replay files."""
import hashlib
import json
import os
import sys
import time

VERIF = os.path.dirname(os.path.dirname(os.path.abspath(__file__)))
REPO = os.environ.get("VERIF_REPO", "/repo")
EVIDENCE_DIR = os.environ.get("VERIF_EVIDENCE_DIR") or os.path.join(VERIF, "evidence")
REPLAY_DIR = os.environ.get("VERIF_REPLAY_DIR") or os.path.join(VERIF, "replays")
FINDINGS_FILE = os.path.join(VERIF, "known_findings.json")
PY = "/venv/bin/python"


def use_repo():
    """Make `import tinyflux` resolve to the working tree under test."""
    if REPO not in sys.path:
        sys.path.insert(0, REPO)
    import tinyflux  # noqa
    got = os.path.dirname(os.path.dirname(os.path.abspath(tinyflux.__file__)))
    if os.path.realpath(got) != os.path.realpath(REPO):
        raise RuntimeError("tinyflux imported from %s, expected %s" % (got, REPO))
    return tinyflux


def tier():
    t = os.environ.get("VERIF_TIER", "quick")
    return t if t in ("quick", "thorough") else "quick"


def seed():
    try:
        return int(os.environ.get("VERIF_SEED", "0"))
    except ValueError:
        return 0


def load_findings():
    if not os.path.exists(FINDINGS_FILE):
        return {"known": [], "fixed": []}
    with open(FINDINGS_FILE) as fh:
        return json.load(fh)


class Report:
    """Collects the outcome of one check run and turns it into exit status,
    VIOLATION / KNOWN-FINDING lines, a replay file and the evidence file."""

    def __init__(self, pid, level, tier_=None, seed_=None):
        self.pid = pid
        self.level = level
        self.tier = tier_ or tier()
        self.seed = seed() if seed_ is None else seed_
        self.t0 = time.time()
        self.coverage = {}
        self.assumptions = []
        self.violations = []     # list of dict(sig=..., what=..., case=...)
        self.known_hits = {}     # finding id -> count
        self.findings = [f for f in load_findings().get("known", []) if f.get("property") == pid]
        self.extra = {}

    # -- violations ---------------------------------------------------------
    def violation(self, what, case, tags=()):
        """Record a divergence.  `tags` are the signature atoms used to match a
        known finding: a finding matches when all of its `match` atoms are in
        tags (and none of its `unless` atoms)."""
        tags = set(tags)
        for f in self.findings:
            need = set(f.get("match", []))
            if need and need <= tags and not (set(f.get("unless", [])) & tags):
                self.known_hits[f["id"]] = self.known_hits.get(f["id"], 0) + 1
                return False
        self.violations.append({"what": what, "case": case, "tags": sorted(tags)})
        return True

    # -- finishing ----------------------------------------------------------
    def finish(self):
        os.makedirs(EVIDENCE_DIR, exist_ok=True)
        os.makedirs(REPLAY_DIR, exist_ok=True)
        ev = {
            "property_id": self.pid,
            "tier": self.tier,
            "seed": self.seed,
            "level": self.level,
            "coverage": self.coverage,
            "assumptions": self.assumptions,
            "wall_s": round(time.time() - self.t0, 2),
            "violations": len(self.violations),
        }
        ev.update(self.extra)
        if self.known_hits:
            ev["known_findings_reobserved"] = self.known_hits
        with open(os.path.join(EVIDENCE_DIR, self.pid + ".json"), "w") as fh:
            json.dump(ev, fh, indent=1, sort_keys=True, default=str)
            fh.write("\n")
        for f in self.findings:
            n = self.known_hits.get(f["id"], 0)
            if n:
                print("KNOWN-FINDING: property=%s %s [%s; re-observed %d time(s)]" % (self.pid, f["what"], f["id"], n))
            else:
                print("NOTE: known finding %s (%s) was not re-observed in this run" % (f["id"], self.pid))
        if self.violations:
            classes = {}
            for v in self.violations:
                classes.setdefault(tuple(v["tags"]), []).append(v)
            shown = 0
            for cls, vs in sorted(classes.items(), key=lambda kv: -len(kv[1])):
                v = min(vs, key=lambda x: len(json.dumps(x["case"], default=str)))
                key = hashlib.sha1(json.dumps(v, sort_keys=True, default=str).encode()).hexdigest()[:12]
                shown += 1
                if shown > 12:
                    print("  ... and %d more classes of violation" % (len(classes) - 12))
                    break
                path = os.path.join(REPLAY_DIR, "%s-%s.json" % (self.pid, key))
                with open(path, "w") as fh:
                    json.dump({"property": self.pid, "what": v["what"], "case": v["case"], "tags": v["tags"]},
                              fh, indent=1, default=str)
                    fh.write("\n")
                print("VIOLATION property=%s replay=%s" % (self.pid, path))
                print("  [%d case(s) of class %s]" % (len(vs), ",".join(cls)[:200]))
                print("  " + str(v["what"])[:700])
            print("%s: %d violation(s) in %d class(es), %.1fs" % (self.pid, len(self.violations), len(classes), time.time() - self.t0))
            return 1
        print("%s: held on everything explored (%s tier, %.1fs)" % (self.pid, self.tier, time.time() - self.t0))
        return 0


def machinery_failure(msg):
    sys.stderr.write("MACHINERY FAILURE: %s\n" % msg)
    sys.exit(2)
