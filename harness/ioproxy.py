"""Run-time I/O proxies for tinyflux.storages (properties C12, C13, C15, C16, C04).

No source hook is needed: the names `open`, `NamedTemporaryFile`, `os` and `shutil`
inside the module namespace of tinyflux.storages are rebound to recording proxies
(the guard TINYFLUX_VERIF=1 only says that checks may do this).  Each I/O call the
storage layer makes becomes one event, recorded AFTER the call took effect, with
the kernel-visible bytes of the database file at that boundary - read through a
separate descriptor, i.e. exactly what survives the death of the process.

The same proxies inject an OSError at the k-th I/O call (before the call takes
effect; for flush / fsync / close optionally after it did).
"""
import builtins
import errno
import os as _os
import shutil as _shutil
import tempfile as _tempfile


class InjectedFault(OSError):
    pass


class Recorder:
    def __init__(self, db_path):
        self.db_path = _os.path.realpath(db_path)
        self.events = []
        self.enabled = True
        self.fault_at = None          # index of the I/O call to fail (0-based over counted calls)
        self.fault_after = False      # let the call take effect first (flush / fsync / close)
        self.fault_errno = errno.ENOSPC
        self.kill_at = None           # index of the I/O call after whose effect the process really dies (os._exit)
        self.ncalls = 0
        self.temp_paths = []
        self.handles = {}             # id(proxy) -> role

    # -- classification -----------------------------------------------------------------
    def role(self, path):
        try:
            rp = _os.path.realpath(path)
        except Exception:
            return "other"
        if rp == self.db_path:
            return "db"
        if rp in self.temp_paths:
            return "tmp"
        return "other"

    def db_bytes(self):
        try:
            with builtins.open(self.db_path, "rb") as fh:
                return fh.read()
        except FileNotFoundError:
            return None

    # -- the heart: one event per call --------------------------------------------------
    def call(self, name, role, fn, *, info=None, counted=True):
        """Run fn() as I/O call `name`; maybe fail it; record the boundary after it."""
        if not self.enabled:
            return fn()
        idx = self.ncalls
        if counted:
            self.ncalls += 1
        inject = counted and self.fault_at is not None and idx == self.fault_at
        if inject and not self.fault_after:
            self.events.append({"call": name, "f": role, "fault": 1, "bytes": self.db_bytes(), "info": info or {}})
            raise InjectedFault(self.fault_errno, "injected fault at I/O call %d (%s on %s)" % (idx, name, role))
        try:
            res = fn()
        except BaseException as e:
            if counted and self.kill_at is not None and idx == self.kill_at:
                _os._exit(9)          # (the call ended by raising, e.g. StopIteration at end of file)
            self.events.append({"call": name, "f": role, "raised": type(e).__name__, "bytes": self.db_bytes(), "info": info or {}})
            raise
        if counted and self.kill_at is not None and idx == self.kill_at:
            _os._exit(9)              # process death right after this I/O call took effect: no flush, no cleanup
        ev = {"call": name, "f": role, "bytes": self.db_bytes(), "info": info or {}, "counted": counted}
        self.events.append(ev)
        if inject and self.fault_after:
            ev["fault"] = 2
            raise InjectedFault(self.fault_errno, "injected fault after I/O call %d (%s on %s)" % (idx, name, role))
        return res


class FileProxy:
    """Wraps a text file object; every method the storage layer uses is an I/O call."""

    def __init__(self, rec, real, role):
        self._rec, self._f, self._role = rec, real, role

    # attribute passthrough for anything not listed
    def __getattr__(self, item):
        return getattr(self._f, item)

    @property
    def name(self):
        return self._f.name

    @property
    def closed(self):
        return self._f.closed

    def _size(self):
        try:
            return _os.fstat(self._f.fileno()).st_size
        except Exception:
            return -1

    def seek(self, *a):
        return self._rec.call("seek", self._role, lambda: self._f.seek(*a), info={"args": list(a)})

    def tell(self):
        return self._rec.call("tell", self._role, lambda: self._f.tell(), counted=False)

    def write(self, s):
        def do():
            return self._f.write(s)
        return self._rec.call("write", self._role, do, info={"n": len(s)})

    def flush(self):
        return self._rec.call("flush", self._role, lambda: self._f.flush())

    def truncate(self, *a):
        return self._rec.call("truncate", self._role, lambda: self._f.truncate(*a), info={"args": list(a)})

    def close(self):
        return self._rec.call("close", self._role, lambda: self._f.close())

    def fileno(self):
        return self._f.fileno()

    def read(self, *a):
        return self._rec.call("read", self._role, lambda: self._f.read(*a))

    def readline(self, *a):
        return self._rec.call("read", self._role, lambda: self._f.readline(*a))

    def __iter__(self):
        return self

    def __next__(self):
        def do():
            return next(self._f)
        try:
            return self._rec.call("read", self._role, do)
        except StopIteration:
            raise

    def __enter__(self):
        return self

    def __exit__(self, *a):
        self.close()


class OsProxy:
    def __init__(self, rec):
        self._rec = rec

    def __getattr__(self, item):
        return getattr(_os, item)

    def fsync(self, fd):
        role = "other"
        try:
            role = self._rec.role(_os.readlink("/proc/self/fd/%d" % fd))
        except Exception:
            pass
        return self._rec.call("fsync", role, lambda: _os.fsync(fd))

    def replace(self, src, dst):
        return self._rec.call("rename", self._rec.role(dst), lambda: _os.replace(src, dst), info={"src": self._rec.role(src)})

    def rename(self, src, dst):
        return self._rec.call("rename", self._rec.role(dst), lambda: _os.rename(src, dst), info={"src": self._rec.role(src)})

    def remove(self, p):
        return self._rec.call("unlink", self._rec.role(p), lambda: _os.remove(p))

    def unlink(self, p):
        return self._rec.call("unlink", self._rec.role(p), lambda: _os.unlink(p))


class ShutilProxy:
    """shutil.copy / copyfile / move broken into their effects on the destination."""

    def __init__(self, rec):
        self._rec = rec

    def __getattr__(self, item):
        return getattr(_shutil, item)

    def _copy(self, src, dst, mode=True):
        rec = self._rec
        role = rec.role(dst)
        holder = {}

        def open_dst():
            holder["src"] = builtins.open(src, "rb")
            holder["dst"] = builtins.open(dst, "wb")          # truncates the destination
        rec.call("copy_open", role, open_dst, info={"src": rec.role(src)})

        def data():
            buf = holder["src"].read()
            half = len(buf) // 2
            holder["dst"].write(buf[:half])
            holder["dst"].flush()
            holder["rest"] = buf[half:]
        rec.call("copy_data_half", role, data)

        def rest():
            holder["dst"].write(holder["rest"])
            holder["dst"].flush()
        rec.call("copy_data", role, rest)

        def done():
            holder["dst"].close()
            holder["src"].close()
            if mode:
                _shutil.copymode(src, dst)
        rec.call("copy_done", role, done)
        return dst

    def copy(self, src, dst, **kw):
        return self._copy(src, dst, True)

    def copy2(self, src, dst, **kw):
        return self._copy(src, dst, True)

    def copyfile(self, src, dst, **kw):
        return self._copy(src, dst, False)

    def move(self, src, dst, **kw):
        rec = self._rec
        return rec.call("rename", rec.role(dst), lambda: _shutil.move(src, dst), info={"src": rec.role(src)})


class Installed:
    """Context manager: install the proxies into tinyflux.storages for one database file."""

    def __init__(self, storages_module, db_path):
        self.mod = storages_module
        self.rec = Recorder(db_path)
        self._saved = {}

    def __enter__(self):
        rec, mod = self.rec, self.mod

        def p_open(path, *a, **kw):
            role = rec.role(path)
            mode = kw.get("mode", a[0] if a else "r")
            holder = {}

            def do():
                holder["f"] = builtins.open(path, *a, **kw)
            rec.call("open", role, do, info={"mode": mode})
            return FileProxy(rec, holder["f"], role)

        def p_ntf(*a, **kw):
            holder = {}

            def do():
                holder["f"] = _tempfile.NamedTemporaryFile(*a, **kw)
                rec.temp_paths.append(_os.path.realpath(holder["f"].name))
            rec.call("mktemp", "tmp", do)
            return FileProxy(rec, holder["f"], "tmp")

        for name, val in (("open", p_open), ("NamedTemporaryFile", p_ntf), ("os", OsProxy(rec)), ("shutil", ShutilProxy(rec))):
            self._saved[name] = self.mod.__dict__.get(name, _MISSING)
            setattr(self.mod, name, val)
        return rec

    def __exit__(self, *exc):
        for name, val in self._saved.items():
            if val is _MISSING:
                try:
                    delattr(self.mod, name)
                except AttributeError:
                    pass
            else:
                setattr(self.mod, name, val)
        return False


_MISSING = object()
