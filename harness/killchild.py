"""Child process for C12: run a history on a CSV database and really die (os._exit) right after the
k-th I/O call of operation j took effect.  Usage: killchild.py <job.json>"""
import json
import os
import sys
import tempfile

HERE = os.path.dirname(os.path.abspath(__file__))
sys.path.insert(0, HERE)


def main():
    job = json.load(open(sys.argv[1]))
    sys.path.insert(0, job["repo"])
    import tinyflux
    import tinyflux.storages
    import concretise
    import driver
    import ioproxy
    import traces
    tempfile.tempdir = job["tmpdir"]
    import themes
    th = themes.get(job.get("theme") or "plain")
    with ioproxy.Installed(tinyflux.storages, job["path"]) as rec:
        d = driver.Db(tinyflux, th, "csv", bool(job["ai"]), path=job["path"], ntk=3, nfk=3, csv_opts=job.get("csv") or {})
        for a in job["ops"][:job["j"]]:
            d.execute(a)
        rec.kill_at = rec.ncalls + job["k"]
        d.execute(job["ops"][job["j"]])
    sys.exit(0)        # the kill point was not reached


if __name__ == "__main__":
    main()
