"""Drive the real tinyflux package with operation records of the specification
(PART 4 of spec/TinyFlux.tla) and project the real state back to the abstract one.

Nothing here judges: it executes, projects and logs.  All verdicts come from TLC.
"""
import csv
import json
import io
import os
from datetime import datetime, timezone

from concretise import NONE, MISSING


UNKNOWN = -999                                            # a value the theme cannot name (itself a divergence)
UNKNOWN_POINT = {"t": UNKNOWN, "m": UNKNOWN, "tg": [], "fd": []}

INT_OPS = {"insert", "insert_multiple", "remove", "drop_measurement", "update", "update_all", "count", "len", "repr", "contains", "bad"}
NONE_OPS = {"remove_all", "reindex", "reopen"}


def coerce(op, res):
    """Force the logged result into the shape the specification's Result has for this
    operation (TLC cannot compare an integer with a sequence); a result of the wrong shape
    becomes the UNKNOWN sentinel of the right shape and so fails the `result` clause."""
    if op in INT_OPS:
        return res if isinstance(res, int) and not isinstance(res, bool) else UNKNOWN
    if op in NONE_OPS:
        return NONE if res == NONE else UNKNOWN
    if not isinstance(res, list):
        return [UNKNOWN] if op not in ("search", "all", "iter", "get") else [dict(UNKNOWN_POINT)]
    return res


class Db:
    """A database under test plus what the projection needs to know."""

    def __init__(self, tf, th, kind, auto_index, path=None, ntk=3, nfk=3, csv_opts=None):
        self.tf, self.th, self.kind, self.auto_index = tf, th, kind, auto_index
        self.path, self.ntk, self.nfk = path, ntk, nfk
        self.csv_opts = dict(csv_opts or {})
        self.db = None
        self.cache = {}
        th.dynamic = {}
        th.window = None
        self.old_handles = {}       # Measurement objects obtained earlier in the history (kept across drops / remove_all)
        self.nops = 0
        self.open()

    def open(self):
        self.old_handles = {}
        if self.kind == "mem":
            self.db = self.tf.TinyFlux(storage=self.tf.storages.MemoryStorage, auto_index=self.auto_index)
        else:
            self.db = self.tf.TinyFlux(self.path, auto_index=self.auto_index, **self.csv_opts)

    def close(self):
        try:
            if self.nops % 2:
                self.db.close()
            else:                                   # leaving a `with TinyFlux(...) as db:` block
                with self.db:
                    pass
        except Exception:
            pass

    # ---- projection ------------------------------------------------------------------
    def contents(self):
        """Abstract contents in insertion order, read without touching the database object's
        own file position / index (CSV: separate descriptor and own row decoder)."""
        th = self.th
        if self.kind == "mem":
            return [self.abs_point(p) for p in list(iter(self.db))]
        try:
            rows = self.read_rows()
        except Exception:                       # undecodable file (wrong encoding, broken quoting): itself a divergence
            return [dict(UNKNOWN_POINT)]
        return [self.decode_row(r) for r in rows]

    def read_rows(self):
        enc = self.csv_opts.get("encoding")
        kw = {k: v for k, v in self.csv_opts.items() if k not in ("encoding", "flush_on_insert", "access_mode", "create_dirs", "newline")}
        with open(self.path, "r", encoding=enc, newline="") as fh:
            return list(csv.reader(fh, **kw))

    def decode_bytes(self, data):
        """Decode a snapshot of the file's bytes with the independent reader; an undecodable
        snapshot becomes a one-element list holding the UNKNOWN point."""
        try:
            enc = self.csv_opts.get("encoding") or "utf-8"
            text = data.decode(enc)
            kw = {k: v for k, v in self.csv_opts.items() if k not in ("encoding", "flush_on_insert", "access_mode", "create_dirs", "newline")}
            rows = list(csv.reader(io.StringIO(text, newline=""), **kw))
            return [self.decode_row(r) for r in rows]
        except Exception:
            return [dict(UNKNOWN_POINT)]

    def reopened_contents(self):
        """Contents seen by a fresh read-only TinyFlux on the same file."""
        try:
            kw = {k: v for k, v in self.csv_opts.items() if k not in ("access_mode", "flush_on_insert")}
            db2 = self.tf.TinyFlux(self.path, access_mode="r", auto_index=False, **kw)
            try:
                return [self.abs_point(p) for p in db2.all(sorted=False)]
            finally:
                db2.close()
        except Exception:
            return [dict(UNKNOWN_POINT)]

    def decode_row(self, row):
        """Independent decoder written from the documented row layout."""
        th = self.th
        try:
            t = datetime.fromisoformat(row[0]).replace(tzinfo=timezone.utc)
            m = row[1]
            tg = [MISSING] * self.ntk
            fd = [MISSING] * self.nfk
            i = 2
            while i + 1 < len(row) + 0 and i < len(row):
                k, v = row[i], row[i + 1]
                if k.startswith("_tag_") or (k.startswith("t_")):
                    name = k[5:] if k.startswith("_tag_") else k[2:]
                    tg[th.keyidx("tag", name) - 1] = th.rank("tag", None if v == "_none" else v)
                elif k.startswith("_field_") or k.startswith("f_"):
                    name = k[7:] if k.startswith("_field_") else k[2:]
                    fd[th.keyidx("field", name) - 1] = th.rank("field", None if v == "_none" else _number(v))
                else:
                    return dict(UNKNOWN_POINT)
                i += 2
            return {"t": th.rank("time", t), "m": th.rank("meas", m), "tg": tg, "fd": fd}
        except Exception:  # value unknown to the theme / undecodable row: itself a divergence
            return dict(UNKNOWN_POINT)

    def abs_point(self, p):
        try:
            return self.th.abstract_point(p, self.ntk, self.nfk)
        except Exception:
            return dict(UNKNOWN_POINT)

    def valid(self):
        try:
            return 1 if self.db.index.valid else 0
        except Exception:
            return 0

    def index_obs(self, store_abs, battery):
        """What the live index answers, next to an index rebuilt by the real code from the
        current contents.  Only taken when the index claims to be valid."""
        tf, th = self.tf, self.th
        obs = {"n": len(store_abs), "q": [], "live": [], "fresh": []}
        try:
            idx = self.db.index
            if not idx.valid:
                return obs
            if any(p["t"] == UNKNOWN for p in store_abs):
                obs["n"] = -1        # the index claims to mirror contents that cannot even be decoded in the database's own format
                return obs
            from tinyflux.index import Index
            fresh = Index()
            fresh.build(th.point_utc(tf, ap) for ap in store_abs)
            obs["n"] = len(idx)
        except Exception:
            return obs
        for q in battery:
            rq = th.query(tf, q, self.cache)
            obs["q"].append(q)
            obs["live"].append(_items(idx, rq))
            obs["fresh"].append(_items(fresh, rq))
        # getters of the index, canonicalised, compared live vs fresh as extra battery rows
        for name, args in (("get_measurements", ()), ("get_tag_keys", ()), ("get_field_keys", ()),
                           ("get_timestamps", ()), ("get_tag_values", ())):
            obs["live"].append(_getter(idx, name, args))
            obs["fresh"].append(_getter(fresh, name, args))
        for mname in th.meas[:4]:
            for name in ("get_tag_keys", "get_field_keys", "get_timestamps"):
                obs["live"].append(_getter(idx, name, (mname,)))
                obs["fresh"].append(_getter(fresh, name, (mname,)))
            obs["live"].append(_getter(idx, "get_tag_values", ([], mname)))
            obs["fresh"].append(_getter(fresh, "get_tag_values", ([], mname)))
            for fk in th.fieldkeys[:self.nfk]:
                obs["live"].append(_getter(idx, "get_field_values", (fk, mname)))
                obs["fresh"].append(_getter(fresh, "get_field_values", (fk, mname)))
        for fk in th.fieldkeys[:self.nfk]:
            obs["live"].append(_getter(idx, "get_field_values", (fk,)))
            obs["fresh"].append(_getter(fresh, "get_field_values", (fk,)))
        return obs

    # ---- execution -----------------------------------------------------------------------
    def meas_name(self, m):
        return None if m == NONE else self.th.val("meas", m)

    def execute(self, a):
        """Run one operation record; returns (exception class name or "", abstract result)."""
        t0 = datetime.now(timezone.utc)
        try:
            return "", coerce(a["op"], self._run(a))
        except BaseException as e:  # noqa - the class name is logged, TLC decides
            if isinstance(e, (KeyboardInterrupt, SystemExit, MemoryError)):
                raise
            return type(e).__name__, 0
        finally:
            self.th.window = (t0, datetime.now(timezone.utc))     # stamps of this call may be named from now on

    def _run(self, a):
        tf, th, db = self.tf, self.th, self.db
        op = a["op"]
        via = a.get("via", "db")
        m = a.get("m", NONE)
        self.nops += 1
        if via == "handle":
            name = self.meas_name(m)
            if name in self.old_handles and (self.nops % 2 == 0 or a.get("sticky")):
                target = self.old_handles[name]          # a handle obtained before the data changed
            else:
                target = db.measurement(name)
                self.old_handles.setdefault(name, target)
        else:
            target = db
        mk = {} if via == "handle" else ({"measurement": self.meas_name(m)} if m != NONE else {})
        if op == "insert":
            p = th.point(tf, a["p"])
            key = json.dumps(a["p"], sort_keys=True)
            if a.get("alias") and getattr(self, "_last_insert", (None, None))[0] == key:
                p = self._last_insert[1]          # the very same Point object again (memory storage keeps the object itself)
            self._last_insert = (key, p)
            if via == "handle":
                return target.insert(p)
            if a.get("compact"):
                return db.insert(p, compact_key_prefixes=True, **mk)
            return db.insert(p, **mk)
        if op == "insert_multiple":
            pts = [th.point(tf, ap) for ap in a["ps"]]
            if a.get("bad"):
                pts.append("not a point")
            batch = pts if self.nops % 2 else iter(pts)        # a list or a plain iterable
            if getattr(self, "reading_batches", False) and (a.get("producer") or self.nops % 4 == 2):
                def producing(pts=pts):
                    """a producer that looks at the database while it hands out the points: a partial read between
                    two elements leaves the file position in the middle of the file"""
                    for i, p in enumerate(pts):
                        if i:
                            it = iter(db)
                            next(it, None)
                        yield p
                batch = producing()
            if via == "handle":
                return target.insert_multiple(batch)
            return db.insert_multiple(batch, **mk)
        if op == "remove":
            q = th.query(tf, a["q"], self.cache)
            return target.remove(q) if via == "handle" else db.remove(q, **mk)
        if op == "drop_measurement":
            return target.remove_all() if via == "handle" else db.drop_measurement(self.meas_name(m))
        if op == "remove_all":
            r = db.remove_all()
            return NONE if r is None else r
        if op in ("update", "update_all"):
            kw = self.update_kwargs(a["u"], a.get("fail", 0))
            if op == "update_all":
                return target.update_all(**kw) if via == "handle" else db.update_all(**kw)
            q = th.query(tf, a["q"], self.cache)
            if via == "handle":
                return target.update(q, **kw)
            if m != NONE:
                return db.update(q, _measurement=self.meas_name(m), **kw)
            return db.update(q, **kw)
        if op == "bad":
            return self._run_bad(a)
        if op == "reindex":
            import contextlib
            with contextlib.redirect_stdout(io.StringIO()):      # "Index already valid." is printed, not returned
                db.reindex()
            return NONE
        if op == "reopen":
            if self.kind == "csv":        # memory storage does not outlive its object: nothing to reopen
                self.close()
                self.open()
            return NONE
        # ---- reads
        if op in ("search", "count", "contains", "get", "select"):
            q = th.query(tf, a["q"], self.cache)
        if op == "search":
            srt = bool(a["sorted"])
            r = target.search(q, sorted=srt) if via == "handle" else db.search(q, sorted=srt, **mk)
            return [self.abs_point(p) for p in r]
        if op == "count":
            return target.count(q) if via == "handle" else db.count(q, **mk)
        if op == "contains":
            r = target.contains(q) if via == "handle" else db.contains(q, **mk)
            return 1 if r is True else (0 if r is False else UNKNOWN)
        if op == "get":
            r = target.get(q) if via == "handle" else db.get(q, **mk)
            return [] if r is None else [self.abs_point(r)]
        if op == "select":
            keys = [self.select_key(sk) for sk in a["keys"]]
            arg = keys[0] if (len(keys) == 1 and a.get("scalar")) else tuple(keys)
            r = target.select(arg, q) if via == "handle" else db.select(arg, q, **mk)
            out = []
            for row in r:
                vals = [row] if (len(keys) == 1) else list(row)
                out.append([self.abs_val(sk["k"], v) for sk, v in zip(a["keys"], vals)])
            return out
        if op == "all":
            r = target.all(sorted=bool(a["sorted"]))
            return [self.abs_point(p) for p in r]
        if op == "len":
            return len(target)
        if op == "repr":
            import re as _re
            m_ = _re.search(r"(?:all_points_count|total)=(\d+)", repr(target))
            return int(m_.group(1)) if m_ else NONE          # the count is only printed while the index is valid
        if op == "iter":
            return [self.abs_point(p) for p in iter(target)]
        if op == "get_measurements":
            return [self.abs_val("meas", v) for v in db.get_measurements()]
        if op == "get_tag_keys":
            r = target.get_tag_keys() if via == "handle" else db.get_tag_keys(**mk)
            return [th.keyidx("tag", k) for k in r]
        if op == "get_field_keys":
            r = target.get_field_keys() if via == "handle" else db.get_field_keys(**mk)
            return [th.keyidx("field", k) for k in r]
        if op == "get_tag_values":
            names = [th.key("tag", k) for k in a["keys"]]
            r = target.get_tag_values(names) if via == "handle" else db.get_tag_values(names, **mk)
            return [[th.keyidx("tag", k), [self.abs_val("tag", v) for v in vals]]
                    for k, vals in sorted(r.items(), key=lambda kv: th.keyidx("tag", kv[0]))]
        if op == "get_field_values":
            name = th.key("field", a["key"])
            r = target.get_field_values(name) if via == "handle" else db.get_field_values(name, **mk)
            return [self.abs_val("field", v) for v in r]
        if op == "get_timestamps":
            r = target.get_timestamps() if via == "handle" else db.get_timestamps(**mk)
            return [self.abs_val("time", v) for v in r]
        raise RuntimeError("driver: unknown op %r" % op)

    # ---- C14: wrongly typed values -------------------------------------------------------
    BAD_VALUES = {"int": 7, "int0": 0, "float": 1.5, "float0": 0.0, "bool": True, "bool0": False,
                  "bytes": b"x", "bytes0": b"", "none": None, "list": ["a"], "list0": [],
                  "dict": {"a": 1}, "dict0": {}, "str": "text", "str0": "", "numstr": "12.5", "numbytes": b"42"}

    def _run_bad(self, a):
        """Supply one wrongly typed value through one API entry point (spec: BadCells)."""
        tf, th, db = self.tf, self.th, self.db
        bad = self.BAD_VALUES[a["kind"]]
        slot, entry = a["slot"], a["entry"]
        good_t, good_m = th.val("time", 3), th.val("meas", 1)
        tk, fk = th.key("tag", 1), th.key("field", 1)

        def arg():
            if slot == "time":
                return "time", bad
            if slot == "measurement":
                return "measurement", bad
            if slot == "tagkey":
                return "tags", {bad: th.val("tag", 1)}
            if slot == "tagkey_none":
                return "tags", {bad: None}
            if slot == "fieldkey_none":
                return "fields", {bad: None}
            if slot == "tagvalue":
                return "tags", {tk: bad}
            if slot == "fieldkey":
                return "fields", {bad: th.val("field", 1)}
            return "fields", {fk: bad}
        name, value = arg()
        if entry == "ctor":
            kw = {"time": good_t, "measurement": good_m}
            kw[name] = value
            tf.Point(**kw)
            return 0
        if entry == "setter":
            p = tf.Point(time=good_t, measurement=good_m, tags={tk: th.val("tag", 1)}, fields={fk: th.val("field", 1)})
            setattr(p, name, value)
            return 0
        if entry == "insert_meas":
            return db.insert(tf.Point(time=good_t, measurement=good_m), measurement=bad)
        if entry == "insert_meas_pos":
            return db.insert(tf.Point(time=good_t, measurement=good_m), bad)
        if entry == "handle_insert":
            return db.measurement(bad).insert(tf.Point(time=good_t))
        if entry == "handle_insert_multiple":
            return db.measurement(bad).insert_multiple([tf.Point(time=good_t), tf.Point(time=good_t)])
        if entry == "insert_meas_stored":
            # a Point object handed out by the database (MemoryStorage: the stored object itself) inserted again
            got = db.get(tf.TimeQuery().noop())
            return db.insert(got if got is not None else tf.Point(time=good_t, measurement=good_m), measurement=bad)
        q = th.query(tf, a["q"], self.cache)
        static = entry.endswith("_static")
        if static and slot in ("tagvalue", "fieldvalue"):
            # first a VALID update that selects nothing and whose argument compares equal to the wrong one (True == 1; the same
            # text as a tag value): whatever the database remembers about validated arguments must not vouch for this one
            twin = None
            if slot == "fieldvalue" and isinstance(bad, bool):
                twin = {"fields": {fk: int(bad)}}
            elif slot == "fieldvalue" and isinstance(bad, str):
                twin = {"tags": {fk: bad}}
            elif slot == "tagvalue" and isinstance(bad, (int, float)):
                twin = {"fields": {tk: bad}} if not isinstance(bad, bool) else {"fields": {tk: int(bad)}}
            if twin is not None:
                try:
                    db.update(tf.TimeQuery() < th.val("time", 0), **twin)
                except Exception:
                    pass
        kw = {name: value} if static else {name: (lambda old, v=value: v)}
        if entry == "update_callable_inplace":
            def inplace(old, v=value):
                old.update(v)
                return old
            kw = {name: inplace}
        companion = a.get("with", "none")
        cname = companion.replace("_callable", "")
        if companion != "none" and cname != name:
            good = {"time": th.val("time", 5), "measurement": th.val("meas", 2),
                    "tags": {th.key("tag", 2): th.val("tag", 2)}, "fields": {th.key("field", 2): th.val("field", 2)}}[cname]
            kw[cname] = (lambda old, g=good: dict(g)) if companion.endswith("_callable") else good
        if entry.startswith("update_all"):
            return db.update_all(**kw)
        if entry.startswith("handle_"):
            return db.measurement(self.meas_name(a["m"])).update(q, **kw)
        return db.update(q, **kw)

    def abs_val(self, slot, v):
        try:
            return self.th.rank(slot, v)
        except Exception:
            return UNKNOWN

    def select_key(self, sk):
        if sk["k"] == "time":
            return "time"
        if sk["k"] == "meas":
            return "measurement"
        if sk["k"] == "tag":
            return "tags." + self.th.key("tag", sk["key"])
        return "fields." + self.th.key("field", sk["key"])

    def update_kwargs(self, u, fail):
        th = self.th
        kw = {}
        rank_t, un_t = th._rank["time"], th._unrank["time"]
        rank_m, un_m = th._rank["meas"], th._unrank["meas"]
        if u["tk"] == 1:
            kw["time"] = th.zoned(u["tv"], 2)
        elif u["tk"] == 2:
            kw["time"] = lambda t, d=u["tv"]: th.zoned(rank_t[t.astimezone(timezone.utc)] + d, 3)   # maybe in another zone
        if u["mk"] == 1:
            kw["measurement"] = th.val("meas", u["mv"])
        elif u["mk"] == 2:
            kw["measurement"] = lambda mm, d=u["mv"]: un_m[rank_m[mm] + d]
        for slot, kk, vv, arg in (("tag", "tgk", "tgv", "tags"), ("field", "fdk", "fdv", "fields")):
            kind = u[kk]
            if kind == 0:
                continue
            mapping = {th.key(slot, i + 1): th.val(slot, v) for i, v in enumerate(u[vv]) if v != MISSING}
            if u.get("alt") and slot == "field":
                mapping = {k: _alt(v) for k, v in mapping.items()}      # an equal number in its other representation
            if kind == 1:
                kw[arg] = mapping
            elif kind == 2:
                kw[arg] = lambda old, mp=mapping: dict(mp)
            elif kind == 4:
                def inplace(old, mp=mapping):
                    old.update(mp)          # mutates the mapping it was handed and returns the same object
                    return old
                kw[arg] = inplace
            else:
                kw[arg] = lambda old, keys=tuple(mapping), rk=th._rank[slot], un=th._unrank[slot]: {
                    k: un[rk[old[k]] + 1] for k in keys if k in old and old[k] is not None}
        if u["utg"]:
            names = [th.key("tag", k) for k in u["utg"]]
            kw["unset_tags"] = names[0] if len(names) == 1 else names
        if u["ufd"]:
            names = [th.key("field", k) for k in u["ufd"]]
            kw["unset_fields"] = names[0] if len(names) == 1 else tuple(names)
        if fail:
            inner = kw.get("fields")
            state = {"n": 0}
            k = abs(fail)

            def failing(old, inner=inner):
                state["n"] += 1
                if state["n"] == k:
                    if fail > 0:
                        raise RuntimeError("user callable fails on selected point %d" % k)
                    return {th.key("field", 1): "not a number"}
                if inner is None:
                    return {}
                return inner(old) if callable(inner) else dict(inner)
            kw["fields"] = failing
        return kw


def _alt(v):
    """the same number written differently: 1 <-> 1.0, 0 <-> -0.0 (equal under ==, so an update to it changes nothing)"""
    if isinstance(v, bool) or v is None:
        return v
    if isinstance(v, int):
        return -0.0 if v == 0 else (float(v) if float(v) == v else v)
    if isinstance(v, float) and v == int(v) and abs(v) < 2 ** 53:
        return -0.0 if (v == 0 and str(v) == "0.0") else (0 if v == 0 else int(v))
    return v


def _number(text):
    """the number a cell denotes, exactly: digits only (with an optional sign) is an int of any size"""
    t = text[1:] if text[:1] in "+-" else text
    return int(text) if t.isdigit() else float(text)


def _items(idx, rq):
    try:
        return sorted(i + 1 for i in idx.search(rq)._items)
    except Exception as e:
        return [-7, -len(type(e).__name__)]


def _getter(idx, name, args):
    try:
        r = getattr(idx, name)(*args)
        return [_canon(r)]
    except Exception as e:
        return ["ERR " + type(e).__name__]


def _canon(r):
    if isinstance(r, dict):
        return "{" + ", ".join("%r: %s" % (k, _canon(v)) for k, v in sorted(r.items(), key=lambda kv: repr(kv[0]))) + "}"
    if isinstance(r, (set, frozenset)):
        return "{" + ", ".join(sorted(_canon(x) for x in r)) + "}"
    if isinstance(r, (list, tuple)):
        return "[" + ", ".join(_canon(x) for x in r) + "]"
    if isinstance(r, (int, float)) and not isinstance(r, bool):
        if r != r or r in (float("inf"), float("-inf")):
            return repr(float(r))
        if r == int(r):
            return "%d.0" % int(r)          # one spelling per number: 1 and 1.0, 0 and -0.0; integers of any size exactly
        return repr(float(r))
    return repr(r)
