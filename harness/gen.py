"""Seeded random generators of operation records (PART 4 of spec/TinyFlux.tla)
over a vocabulary larger than the one TLC enumerates."""
import json
import random

from concretise import NONE, MISSING

NTK, NFK = 3, 3
NT, NM, NS, NN = 30, 4, 6, 6      # instants, measurements, tag-value ranks, field-value ranks


class Gen:
    def __init__(self, seed, ntk=NTK, nfk=NFK, focus=None, handles=0.0, regex=True, nt=NT, now=0.0, time_pool=None):
        self.r = random.Random(seed)
        self.ntk, self.nfk = ntk, nfk
        self.focus = focus or {}
        self.handles = handles
        self.regex = regex
        self.nt = nt
        self.time_pool = time_pool   # ranks to draw instants from (default: 0..nt-1)
        self.now = now          # probability that an inserted point carries no time (gets the insertion time)

    # ---- values ---------------------------------------------------------------------
    def point(self, t=None):
        r = self.r
        tg = [MISSING if r.random() < 0.4 else (NONE if r.random() < 0.2 else r.randrange(NS)) for _ in range(self.ntk)]
        fd = [MISSING if r.random() < 0.4 else (NONE if r.random() < 0.2 else r.randrange(NN)) for _ in range(self.nfk)]
        return {"t": self.rt() if t is None else t, "m": r.randrange(NM - 1), "tg": tg, "fd": fd}

    def rt(self):
        return self.r.choice(self.time_pool) if self.time_pool else self.r.randrange(self.nt)

    def meas(self, p_none=0.5):
        return NONE if self.r.random() < p_none else self.r.randrange(NM)

    # ---- queries ----------------------------------------------------------------------
    def atom(self):
        r = self.r
        k = r.choice(["time", "meas", "tag", "tag", "field", "field"])
        a = {"k": k, "key": 0, "key2": 0, "mf": 0, "op": "eq", "v": 0, "tf": 0}
        ops = ["eq", "ne", "lt", "le", "gt", "ge"]
        if k in ("tag", "field"):
            a["key"] = r.randrange(1, (self.ntk if k == "tag" else self.nfk) + 1)
        roll = r.random()
        if k == "time" and (self.now > 0 or self.time_pool) and roll >= 0.62:
            roll = 0.0 if roll < 0.96 else 0.99       # with insertion-time stamps around: comparisons and noop only
        nvals = {"time": self.nt, "meas": NM, "tag": NS, "field": NN}[k]
        if roll < 0.62:
            a["op"] = r.choice(ops)
            a["v"] = r.randrange(nvals) if k != "time" else self.rt()
            if k in ("tag", "field") and a["op"] in ("eq", "ne") and r.random() < 0.15:
                a["v"] = NONE
        elif roll < 0.70 and k in ("tag", "field"):
            a["op"] = "exists"
        elif roll < 0.78 and k in ("tag", "meas") and self.regex:
            a["op"] = r.choice(["matches", "search"])
            a["v"] = r.choice([1, 2, 3, 4, 5])
        elif roll < 0.86:
            a["op"] = "test"
            a["tf"] = r.choice([1, 2, 3, 4]) if k in ("tag", "field") else r.choice([1, 3, 4])
            a["v"] = r.randrange(nvals) if a["tf"] == 3 else 0
        elif roll < 0.93:
            a["mf"] = r.choice([1, 2, 3]) if k in ("tag", "field") else r.choice([1, 3])
            a["op"] = r.choice(ops)
            a["v"] = r.randrange(nvals)
        elif roll < 0.96 and k in ("tag", "field"):
            a["key2"] = r.randrange(1, 3)
            a["op"] = "eq"
            a["v"] = r.randrange(nvals)
        else:
            a["op"] = "noop"
            a["key"] = 0
        return a

    def query(self, depth=None):
        r = self.r
        if depth is None:
            depth = r.choice([0, 0, 1, 1, 2, 3])
        if depth == 0:
            return self.atom()
        x = r.random()
        if x < 0.3:
            return {"k": "not", "a": self.query(depth - 1)}
        return {"k": "and" if x < 0.65 else "or", "a": self.query(depth - 1), "b": self.query(depth - 1)}

    # ---- updates ------------------------------------------------------------------------
    def update(self):
        r = self.r
        u = {"tk": 0, "tv": 0, "mk": 0, "mv": 0, "tgk": 0, "tgv": [], "fdk": 0, "fdv": [], "utg": [], "ufd": []}
        parts = r.sample(["t", "m", "tg", "fd", "utg", "ufd"], r.choice([1, 1, 1, 2, 2, 3]))
        for p in parts:
            if p == "t":
                u["tk"] = r.choice([1, 2]) if (self.now == 0 and not self.time_pool) else 1
                u["tv"] = self.rt() if u["tk"] == 1 else r.choice([1, 2])
            elif p == "m":
                u["mk"] = r.choice([1, 2])
                u["mv"] = r.randrange(NM) if u["mk"] == 1 else 1
            elif p == "tg":
                u["tgk"] = r.choice([1, 1, 2, 3, 4])
                u["tgv"] = [MISSING] * self.ntk
                for k in r.sample(range(self.ntk), r.choice([1, 1, 2])):
                    u["tgv"][k] = NONE if r.random() < 0.2 else r.randrange(NS)
            elif p == "fd":
                u["fdk"] = r.choice([1, 1, 2, 3, 4])
                u["fdv"] = [MISSING] * self.nfk
                for k in r.sample(range(self.nfk), r.choice([1, 1, 2])):
                    u["fdv"][k] = NONE if r.random() < 0.2 else r.randrange(NN)
            elif p == "utg":
                u["utg"] = sorted(r.sample(range(1, self.ntk + 1), r.choice([1, 1, 2])))
            else:
                u["ufd"] = sorted(r.sample(range(1, self.nfk + 1), r.choice([1, 1, 2])))
        if u["fdk"] in (1, 2, 4) and r.random() < 0.2:
            u["alt"] = 1          # numbers handed over in their other representation (1.0 for 1, -0.0 for 0): equal, so no change where equal
        return u

    # ---- operations ----------------------------------------------------------------------
    def via(self, a):
        """maybe route a measurement-scoped operation through a Measurement handle"""
        if a.get("m", NONE) != NONE and self.r.random() < self.handles:
            a["via"] = "handle"
        return a

    def read(self):
        r = self.r
        op = r.choice(self.focus.get("reads") or
                      ["search", "count", "contains", "get", "select", "all", "len", "iter", "repr", "get_measurements",
                       "get_tag_keys", "get_tag_values", "get_field_keys", "get_field_values", "get_timestamps"])
        a = {"op": op}
        if op in ("search", "count", "contains", "get", "select"):
            a["q"] = self.query()
            a["m"] = self.meas()
        if op == "search":
            a["sorted"] = r.randrange(2)
        if op == "select":
            ks = []
            for _ in range(r.choice([1, 1, 2, 3])):
                k = r.choice(["time", "meas", "tag", "field"])
                ks.append({"k": k, "key": 0 if k in ("time", "meas") else r.randrange(1, 4)})
            a["keys"] = ks
            a["scalar"] = r.randrange(2)
        self.adapt(a, 0.4)
        if op in ("all", "len", "iter", "repr"):
            a["m"] = self.meas(0.6)
            if a["m"] != NONE:
                a["via"] = "handle"          # only the handle has per-measurement all/len/iter
            if op == "all":
                a["sorted"] = r.randrange(2)
        if op in ("get_tag_keys", "get_field_keys", "get_timestamps"):
            a["m"] = self.meas()
        if op == "get_tag_values":
            a["m"] = self.meas()
            a["keys"] = sorted(r.sample(range(1, self.ntk + 1), r.choice([0, 0, 1, 2])))
        if op == "get_field_values":
            a["m"] = self.meas()
            a["key"] = r.randrange(1, self.nfk + 1)
        return self.via(a)

    def write(self, tmax_hint=None):
        r = self.r
        w = self.focus
        kinds = ["insert"] * w.get("insert", 6) + ["insert_multiple"] * w.get("insert_multiple", 1) + \
                ["remove"] * w.get("remove", 2) + ["drop_measurement"] * w.get("drop", 1) + \
                ["remove_all"] * w.get("remove_all", 1) + ["update"] * w.get("update", 2) + \
                ["update_all"] * w.get("update_all", 1) + ["reindex"] * w.get("reindex", 1) + \
                ["reopen"] * w.get("reopen", 1)
        op = r.choice(kinds)
        a = {"op": op}
        if op == "insert":
            t = None
            if tmax_hint is not None and r.random() < 0.7:
                t = min(self.nt - 1, tmax_hint + r.choice([0, 0, 1]))      # mostly in order, with ties
            a.update({"p": self.point(t), "m": self.meas(0.8), "compact": 1 if r.random() < 0.2 else 0})
            if r.random() < self.now:
                a["p"]["t"] = -5          # no time: the database stamps the point with the insertion time
        elif op == "insert_multiple":
            n = r.choice([0, 1, 2, 3])
            ps = [self.point() for _ in range(n)]
            if tmax_hint is not None and r.random() < 0.5:
                # a batch that is not earlier than what is stored, but maybe unordered within itself
                for p in ps:
                    p["t"] = min(self.nt - 1, tmax_hint + r.choice([0, 0, 1, 2, 3]))
            a.update({"ps": ps, "m": self.meas(0.8), "bad": 1 if r.random() < w.get("bad", 0.15) else 0})
        elif op == "remove":
            a.update({"q": self.query(), "m": self.meas(0.55)})
            self.adapt(a, 0.6)
            self.negfield(a)
        elif op == "drop_measurement":
            a.update({"m": r.randrange(NM)})
        elif op == "update":
            a.update({"q": self.query(), "m": self.meas(), "u": self.update(), "fail": 0})
            x = r.random()
            if x < w.get("fail", 0.1):
                a["fail"] = r.choice([1, 1, 2, 3, -1, -2])
            self.adapt(a, 0.5)
            self.negfield(a)
        elif op == "update_all":
            a.update({"u": self.update(), "fail": 0})
            if r.random() < self.handles:
                a["m"] = r.randrange(NM)           # Measurement.update_all
                a["via"] = "handle"
            if r.random() < w.get("fail", 0.1):
                a["fail"] = r.choice([1, 2, -1])
        return self.via(a)

    def history(self, n, p_read=0.45):
        ops = []
        tmax = 0
        for _ in range(n):
            if ops and self.r.random() < self.focus.get("again", 0.04):
                ops.append({"op": "__repeat__"})      # the last remove / update once more, later in the history
                continue
            if self.r.random() < p_read:
                if ops and self.r.random() < self.focus.get("reread", 0.15):
                    # one of the last reads once more, exactly as it was resolved (same query, same route): a cached answer is stale by now
                    ops.append({"op": "__reread__", "back": self.r.randrange(4)})
                else:
                    ops.append(self.read())
            else:
                a = self.write(tmax)
                if a["op"] in ("remove", "drop_measurement", "update") and self.r.random() < self.focus.get("repeat", 0.25):
                    # the same call again: the second remove must remove nothing, the second static update change nothing
                    ops.append(a)
                    if self.r.random() < 0.5:
                        ops.append(self.read())
                    ops.append({"op": "__repeat__"})
                    continue
                if a["op"] == "insert":
                    tmax = max(tmax, a["p"]["t"])
                if a["op"] == "insert_multiple":
                    tmax = max([tmax] + [p["t"] for p in a["ps"]])
                    if self.r.random() < self.now and a["ps"]:
                        for p in a["ps"][:: 2]:
                            p["t"] = -5
                ops.append(a)
        return ops

    def negfield(self, a, p=None):
        """conjoin a negated field comparison: such queries are answered by a scan even when the index is valid"""
        p = self.focus.get("negfield", 0.2) if p is None else p
        if "q" in a and self.r.random() < p:
            nf = {"k": "not", "a": {"k": "field", "key": self.r.randrange(1, self.nfk + 1), "key2": 0, "mf": 0,
                                   "op": self.r.choice(["eq", "lt", "ge"]), "v": self.r.randrange(NN), "tf": 0}}
            x = self.r.random()
            if x < 0.35:
                a["q"] = {"k": "and", "a": a["q"], "b": nf}
            elif x < 0.7:
                a["q"] = {"k": "and", "a": nf, "b": a["q"]}
            elif x < 0.85:      # the negated field test buried under another negation: ~(~f | ~q)  ==  f' & q
                a["q"] = {"k": "not", "a": {"k": "or", "a": nf, "b": {"k": "not", "a": a["q"]}}}
            else:               # ... or doubly negated
                a["q"] = {"k": "and", "a": {"k": "not", "a": {"k": "not", "a": nf}}, "b": a["q"]}
            a["negfield"] = 1 if x < 0.7 else 2
        return a

    def adapt(self, a, p=0.5):
        """mark a query-carrying operation as adaptive: when it is executed, the recorder replaces
        the query by one built from a point that is stored at that moment (so that it selects a
        non-empty, usually proper, subset).  The verdict still comes from TLC."""
        if "q" in a and self.r.random() < p:
            a["adapt"] = self.r.randrange(1 << 20)
        return a

    def batch_scenario(self):
        """in-order inserts, then ONE batch that is newer than everything stored but unordered within itself, then
        reads / removes / updates selected by time comparisons around the batch, then more of the same"""
        r = self.r
        ops, t = [], r.randrange(0, 4)
        for _ in range(r.choice([0, 1, 2, 3])):
            ops.append({"op": "insert", "p": self.point(t), "m": NONE, "compact": 0})
            t += r.choice([0, 1, 2])
        for _round in range(r.choice([1, 2])):
            n = r.choice([2, 3, 3, 4])
            ts = [t + i for i in range(n)]
            while n > 1 and ts == sorted(ts):
                r.shuffle(ts)
            ops.append({"op": "insert_multiple", "ps": [self.point(x) for x in ts], "m": self.meas(0.8), "bad": 0})
            for _ in range(r.choice([1, 2, 3])):
                tq = {"k": "time", "key": 0, "key2": 0, "mf": 0, "op": r.choice(["lt", "le", "gt", "ge", "eq", "ne"]), "v": t + r.randrange(n), "tf": 0}
                kind = r.choice(["count", "search", "remove", "update", "get", "select", "get_timestamps"])
                if kind == "remove":
                    ops.append({"op": "remove", "q": tq, "m": NONE})
                elif kind == "update":
                    ops.append({"op": "update", "q": tq, "m": NONE, "u": self.update(), "fail": 0})
                elif kind == "search":
                    ops.append({"op": "search", "q": tq, "m": NONE, "sorted": r.randrange(2)})
                elif kind == "select":
                    ops.append({"op": "select", "q": tq, "m": NONE, "keys": [{"k": "time", "key": 0}], "scalar": 1})
                elif kind == "get_timestamps":
                    ops.append({"op": "get_timestamps", "m": NONE})
                else:
                    ops.append({"op": kind, "q": tq, "m": NONE})
            ops.append({"op": "all", "m": NONE, "sorted": 0})
            t += n + r.choice([0, 1])
        return ops

    def scan_remove_scenario(self):
        """points of several measurements interleaved in time order (index valid), then a remove / update restricted to one
        measurement whose query contains a negated field comparison (answered by a scan although the index is valid), then
        reads on the OTHER measurements, directly and through handles"""
        r = self.r
        ops, t = [], r.randrange(0, 3)
        n = r.choice([4, 5, 6, 7])
        for i in range(n):
            p = self.point(t)
            p["m"] = i % r.choice([2, 3])
            if p["fd"][0] == MISSING:
                p["fd"][0] = r.randrange(NN)
            ops.append({"op": "insert", "p": p, "m": NONE, "compact": 0})
            t += r.choice([0, 1, 1])
        for _ in range(r.choice([1, 2])):
            m = r.randrange(2)
            nf = {"k": "not", "a": {"k": "field", "key": 1, "key2": 0, "mf": 0, "op": r.choice(["eq", "lt", "ge"]), "v": r.randrange(NN), "tf": 0}}
            a = {"op": r.choice(["remove", "remove", "update"]), "q": nf, "m": m}
            if a["op"] == "update":
                a.update({"u": self.update(), "fail": 0})
            if r.random() < 0.5:
                a["via"] = "handle"
            ops.append(a)
            for _ in range(r.choice([2, 3, 4])):
                m2 = r.randrange(3)
                kind = r.choice(["search", "get", "count", "get_timestamps", "get_tag_values", "get_field_values", "select", "len", "repr"])
                q = self.atom()
                b = {"op": kind, "m": m2}
                if kind in ("search", "get", "count", "select"):
                    b["q"] = q
                if kind == "search":
                    b["sorted"] = r.randrange(2)
                if kind == "select":
                    b.update({"keys": [{"k": "tag", "key": 1}, {"k": "time", "key": 0}], "scalar": 0})
                if kind == "get_tag_values":
                    b["keys"] = []
                if kind == "get_field_values":
                    b["key"] = r.randrange(1, self.nfk + 1)
                if kind in ("len", "repr") or r.random() < 0.5:
                    b["via"] = "handle"
                ops.append(b)
            ops.append({"op": "insert", "p": self.point(t), "m": NONE, "compact": 0})
            t += 1
        ops.append({"op": "all", "m": NONE, "sorted": 0})
        return ops

    def reread_scenario(self):
        """a read through ONE Measurement handle (or the database), then writes that do not go through that handle,
        then the very same read again through the same handle: an answer remembered from the first time is stale"""
        r = self.r
        ops, t = [], r.randrange(0, 3)
        m = r.randrange(2)
        for i in range(r.choice([2, 3, 4])):
            p = self.point(t)
            p["m"] = m if i % 3 != 2 else 1 - m
            ops.append({"op": "insert", "p": p, "m": NONE, "compact": 0})
            t += r.choice([0, 1])
        first = json.loads(json.dumps(ops[0]["p"]))
        for _ in range(r.choice([1, 2])):
            kind = r.choice(["search", "search", "count", "get", "select", "contains", "get_timestamps", "get_tag_values", "get_field_keys", "len", "all"])
            a = {"op": kind, "m": m, "via": "handle", "sticky": 1}
            matching = r.random() < 0.5
            if kind in ("search", "count", "get", "select", "contains"):
                if matching:      # a query the first point satisfies - and so will the copies of it inserted below
                    a["q"] = {"k": "meas", "key": 0, "key2": 0, "mf": 0, "op": "eq", "v": first["m"], "tf": 0}
                    if first["tg"][0] >= 0 and r.random() < 0.5:
                        a["q"] = {"k": "tag", "key": 1, "key2": 0, "mf": 0, "op": "eq", "v": first["tg"][0], "tf": 0}
                else:
                    a["q"] = self.atom()
                    self.adapt(a, 0.8)
            if kind in ("search", "all"):
                a["sorted"] = r.randrange(2)
            if kind == "select":
                a.update({"keys": [{"k": "time", "key": 0}, {"k": "tag", "key": 1}], "scalar": 0})
            if kind == "get_tag_values":
                a["keys"] = []
            if r.random() < 0.25:
                a.pop("via"), a.pop("sticky")          # the same through the database object
                if kind in ("len", "all"):
                    a["m"] = NONE                      # (only the handle has per-measurement len / all)
            ops.append(a)
            for _ in range(r.choice([1, 2])):
                w = r.choice(["insert", "insert", "remove", "update", "drop", "remove_all", "insert_multiple"])
                if w == "insert":
                    p = self.point(t)
                    p["m"] = m
                    if matching:
                        p = dict(json.loads(json.dumps(first)), t=t)        # in time order, and selected by the query just read
                    ops.append({"op": "insert", "p": p, "m": NONE, "compact": 0})
                elif w == "insert_multiple":
                    ps = [self.point(t), dict(json.loads(json.dumps(first)), t=t) if matching else self.point(t)]
                    ops.append({"op": "insert_multiple", "ps": ps, "m": m, "bad": 0})
                elif w == "remove":
                    ops.append(self.adapt({"op": "remove", "q": self.atom(), "m": r.choice([m, NONE]), "q_from_read": 1 if matching else r.randrange(2)}, 0.8))
                elif w == "update":
                    ops.append(self.adapt({"op": "update", "q": self.atom(), "m": r.choice([m, NONE]), "u": self.update(), "fail": 0,
                                           "q_from_read": 1 if matching else r.randrange(2)}, 0.8))
                elif w == "drop":
                    ops.append({"op": "drop_measurement", "m": m})
                else:
                    ops.append({"op": "remove_all"})
                t += 1
            ops.append({"op": "__reread__", "back": 0})
        return ops

    def alias_scenario(self):
        """the SAME Point object inserted more than once (memory storage keeps the object itself, so one object is then
        visited several times by one update), other points around it, then updates whose callable raises on the LAST
        selected point, and reads: a failed call must leave every stored point as it was"""
        r = self.r
        ops, t = [], r.randrange(0, 3)
        total = 0
        for _ in range(r.choice([0, 1])):
            ops.append({"op": "insert", "p": self.point(t), "m": NONE, "compact": 0})
            total += 1
        p = self.point(t)
        if p["fd"][0] == MISSING:
            p["fd"][0] = r.randrange(NN)
        for i in range(r.choice([2, 2, 3])):
            ops.append({"op": "insert", "p": json.loads(json.dumps(p)), "m": NONE, "compact": 0, "alias": 1 if i else 0})
            total += 1
        for _ in range(r.choice([1, 2])):
            t += r.choice([0, 1])
            ops.append({"op": "insert", "p": self.point(t), "m": NONE, "compact": 0})
            total += 1
        for _ in range(r.choice([1, 2, 3])):
            u = self.update()
            if u["fdk"] == 0:                      # make sure the aliased point is really changed before the failure
                u["fdk"], u["fdv"] = 1, [MISSING] * self.nfk
                u["fdv"][0] = (p["fd"][0] + 1) % NN
            ops.append({"op": "update_all", "u": u, "fail": total})
            ops.append({"op": "all", "m": NONE, "sorted": 0})
            ops.append(self.read())
        return ops

    def battery(self, k=5):
        return [self.query(self.r.choice([0, 0, 1, 2])) for _ in range(k)]


def deregex(x):
    """replace every regex pattern in the operations by the universal one: themes whose strings are not
    the plain ones do not realise the specification's regex tables"""
    if isinstance(x, list):
        for y in x:
            deregex(y)
    elif isinstance(x, dict):
        if x.get("op") in ("matches", "search") and "k" in x:
            x["v"] = 3
        for y in x.values():
            if isinstance(y, (dict, list)):
                deregex(y)
    return x
