"""pytest plug-in: record the executions of the repository's OWN test suite as traces
for spec/Trace_TinyFlux.tla (no source change: loaded with  -p pytest_trace  and
PYTHONPATH=/verif/harness; it wraps the public methods of TinyFlux / Measurement at
run time).

Every TinyFlux instance a test creates gets one trace.  Queries are arbitrary
objects (lambdas in paths, test functions), so they are logged OPAQUELY: the truth
value of the real query object on each currently stored point; updates likewise
(`update_opaque`: TLC checks the frame - unselected points untouched, order kept,
return value = number of selected points that changed).  Values are abstracted to
ranks per trace (sorted order of everything the trace ever saw).  A wrapper that
meets something it cannot express marks the trace `broken`; broken traces are not
judged.  Output: JSON at $VERIF_SUITE_TRACES.
"""
import copy
import csv
import functools
import json
import os
from datetime import datetime, timezone

_TRACES = []
_CURRENT_TEST = {"id": "", "n": 0}
_DEPTH = {"n": 0}


class _Trace:
    def __init__(self, db, test, n):
        self.db = db
        self.test, self.n = test, n
        self.events = []           # raw events (real objects), abstracted at the end
        self.broken = ""
        self.init = None
        self.valid0 = 0
        self.auto_index = 1 if getattr(db, "_auto_index", True) else 0

    def contents(self):
        """deep copies of the stored points in insertion order, read without disturbing the object"""
        st = self.db._storage
        name = type(st).__name__
        if name == "MemoryStorage":
            return [copy.deepcopy(p) for p in st._memory]
        if name == "CSVStorage":
            from tinyflux.point import Point
            with open(st._path, "r", encoding=st._encoding, newline="") as fh:
                rows = list(csv.reader(fh, **st.kwargs))
            return [Point()._deserialize_from_list(r) for r in rows]
        raise RuntimeError("unknown storage " + name)


def _vec(query, points):
    out = []
    for p in points:
        out.append(1 if query(copy.deepcopy(p)) else 0)
    return out


def _index_obs(db, points):
    from tinyflux.index import Index
    idx = db.index
    obs = {"n": len(points), "q": [], "live": [], "fresh": []}
    if not idx.valid:
        return obs
    fresh = Index()
    fresh.build(copy.deepcopy(p) for p in points)
    obs["n"] = len(idx)
    import driver
    for name, args in (("get_measurements", ()), ("get_tag_keys", ()), ("get_field_keys", ()), ("get_timestamps", ()), ("get_tag_values", ())):
        obs["live"].append(driver._getter(idx, name, args))
        obs["fresh"].append(driver._getter(fresh, name, args))
    return obs


READS = {"search": ("q", "m", "sorted"), "count": ("q", "m"), "contains": ("q", "m"), "get": ("q", "m"), "all": ("sorted",),
         "get_measurements": (), "get_tag_keys": ("m",), "get_field_keys": ("m",), "get_timestamps": ("m",),
         "get_field_values": ("key", "m")}
WRITES = {"insert", "insert_multiple", "remove", "drop_measurement", "remove_all", "update", "update_all", "reindex"}


def _wrap(cls, name):
    orig = getattr(cls, name)

    @functools.wraps(orig)
    def wrapper(self, *args, **kwargs):
        tr = getattr(self, "_verif_trace", None)
        if tr is None or tr.broken or _DEPTH["n"] > 0:
            return orig(self, *args, **kwargs)
        _DEPTH["n"] += 1
        try:
            try:
                before = tr.contents()
                rec = _describe(name, args, kwargs, before)
            except Exception as e:  # cannot express this call: the trace ends here
                tr.broken = "describe %s: %s: %s" % (name, type(e).__name__, e)
                rec = None
        finally:
            _DEPTH["n"] -= 1
        if rec is None:
            return orig(self, *args, **kwargs)
        exc = ""
        res = None
        _DEPTH["n"] += 1
        try:
            try:
                res = orig(self, *args, **kwargs)
                return res
            except BaseException as e:
                exc = type(e).__name__
                raise
            finally:
                try:
                    after = tr.contents()
                    rec.update({"exc": exc, "res": copy.deepcopy(res) if not exc else None, "after": after,
                                "valid": 1 if self.index.valid else 0, "ix": _index_obs(self, after)})
                    tr.events.append(rec)
                except Exception as e:
                    tr.broken = "observe %s: %s: %s" % (name, type(e).__name__, e)
        finally:
            _DEPTH["n"] -= 1
    setattr(cls, name, wrapper)


def _describe(name, args, kwargs, before):
    """raw description of a call; raises if the call is outside what the trace format can say"""
    def arg(i, key, default=None):
        if len(args) > i:
            return args[i]
        return kwargs.get(key, default)
    rec = {"op": name, "before": before}
    if name in ("search", "count", "contains", "get", "remove"):
        q = arg(0, "query")
        rec["vec"] = _vec(q, before)
        rec["m"] = arg(1, "measurement")
        if name == "search":
            rec["sorted"] = 1 if arg(2, "sorted", True) else 0
    elif name == "all":
        rec["sorted"] = 1 if arg(0, "sorted", True) else 0
    elif name in ("get_tag_keys", "get_field_keys", "get_timestamps"):
        rec["m"] = arg(0, "measurement")
    elif name == "get_field_values":
        rec["key"] = arg(0, "field_key")
        rec["m"] = arg(1, "measurement")
    elif name == "drop_measurement":
        rec["m"] = arg(0, "name")
    elif name == "insert":
        p = arg(0, "point")
        rec["point"] = copy.deepcopy(p)
        rec["m"] = arg(1, "measurement")
    elif name == "insert_multiple":
        pts = arg(0, "points")
        if not isinstance(pts, (list, tuple)):
            raise ValueError("iterator argument")
        rec["points"] = [copy.deepcopy(p) for p in pts]
        rec["m"] = arg(1, "measurement")
    elif name == "update":
        q = arg(0, "query")
        rec["vec"] = _vec(q, before)
        rec["m"] = kwargs.get("_measurement", args[7] if len(args) > 7 else None)
    elif name in ("update_all", "remove_all", "reindex", "get_measurements"):
        pass
    else:
        raise ValueError("unmodelled call " + name)
    if rec.get("m") is not None and not isinstance(rec["m"], str):
        raise ValueError("non-string measurement filter")
    return rec


def _install():
    import tinyflux
    from tinyflux.database import TinyFlux
    orig_init = TinyFlux.__init__

    @functools.wraps(orig_init)
    def init(self, *a, **kw):
        orig_init(self, *a, **kw)
        try:
            if type(self._storage).__name__ in ("MemoryStorage", "CSVStorage") and type(self) is TinyFlux:
                _CURRENT_TEST["n"] += 1
                tr = _Trace(self, _CURRENT_TEST["id"], _CURRENT_TEST["n"])
                tr.init = tr.contents()
                tr.valid0 = 1 if self.index.valid else 0
                self._verif_trace = tr
                _TRACES.append(tr)
        except Exception:
            pass
    TinyFlux.__init__ = init
    for name in list(READS) + sorted(WRITES):
        _wrap(TinyFlux, name)


# ---- abstraction to ranks ---------------------------------------------------------------------
def _abstract(tr):
    """raw trace -> trace for Trace_TinyFlux.tla (or None if something cannot be named)"""
    def norm_t(t):
        if t is None:
            return None
        return t.astimezone(timezone.utc) if t.tzinfo is not None else t.replace(tzinfo=timezone.utc)
    times, meas, tagk, fieldk, tagv, fieldv = set(), set(), set(), set(), set(), set()

    def see(p):
        if p.time is not None:
            times.add(norm_t(p.time))
        meas.add(p.measurement)
        for k, v in p.tags.items():
            tagk.add(k)
            if v is not None:
                tagv.add(v)
        for k, v in p.fields.items():
            fieldk.add(k)
            if v is not None:
                fieldv.add(float(v))
    pts_all = list(tr.init)
    for e in tr.events:
        pts_all += e["before"] + e["after"]
        pts_all += [e["point"]] if "point" in e else []
        pts_all += e.get("points", [])
        for key in ("m",):
            if e.get(key) is not None:
                meas.add(e[key])
        if e.get("key") is not None:
            fieldk.add(e["key"])
    for p in pts_all:
        if type(p).__name__ != "Point":
            return None
        see(p)
    rk = lambda s: {v: i for i, v in enumerate(sorted(s))}
    rt, rm, rtk, rfk, rtv, rfv = rk(times), rk(meas), rk(tagk), rk(fieldk), rk(tagv), rk(fieldv)
    ntk, nfk = max(1, len(rtk)), max(1, len(rfk))

    def ap(p, stored_time=None):
        tg, fd = [-2] * ntk, [-2] * nfk
        for k, v in p.tags.items():
            tg[rtk[k]] = -1 if v is None else rtv[v]
        for k, v in p.fields.items():
            fd[rfk[k]] = -1 if v is None else rfv[float(v)]
        t = p.time if p.time is not None else stored_time
        return {"t": rt[norm_t(t)], "m": rm[p.measurement], "tg": tg, "fd": fd}
    M = lambda m: -1 if m is None else rm[m]
    init_abs = [ap(p) for p in tr.init]
    out = []
    for e in tr.events:
        op = e["op"]
        a = {"op": op}
        before = [ap(p) for p in e["before"]]
        after = [ap(p) for p in e["after"]]
        if "vec" in e:
            a["q"] = {"k": "opaque", "vec": e["vec"]}
            a["m"] = M(e.get("m"))
        if op in ("get_tag_keys", "get_field_keys", "get_timestamps", "drop_measurement"):
            a["m"] = M(e.get("m"))
        if op in ("search", "all"):
            a["sorted"] = e["sorted"]
        if op == "all":
            a["m"] = -1
        if op == "get_field_values":
            a["key"] = rfk[e["key"]] + 1
            a["m"] = M(e.get("m"))
        res = e["res"]
        exc = e["exc"]
        if op == "insert":
            if exc:
                return out_trace(tr, out, init_abs)          # a failing insert in the suite: stop the trace before it
            stored = e["after"][-1] if len(e["after"]) > len(e["before"]) else None
            a["p"] = ap(e["point"], stored.time if stored else None)
            a["m"] = M(e.get("m"))
            a["compact"] = 0
            r = res
        elif op == "insert_multiple":
            if exc:
                return out_trace(tr, out, init_abs)
            n = len(e["points"])
            stored = e["after"][len(e["before"]):]
            a["ps"] = [ap(p, stored[i].time if i < len(stored) else None) for i, p in enumerate(e["points"])]
            a["m"] = M(e.get("m"))
            a["bad"] = 0
            r = res
        elif op in ("remove", "drop_measurement"):
            r = res
        elif op == "remove_all":
            r = -1
        elif op in ("update", "update_all"):
            a["op"] = "update_opaque"
            if op == "update_all":
                a["q"] = {"k": "opaque", "vec": [1] * len(before)}
                a["m"] = -1
            r = res if not exc else 0
        elif op == "reindex":
            r = -1
        elif op == "search" or op == "all":
            r = [ap(p) for p in res] if not exc else 0
        elif op == "count":
            r = res
        elif op == "contains":
            r = 1 if res else 0
        elif op == "get":
            r = ([] if res is None else [ap(res)]) if not exc else 0
        elif op == "get_measurements":
            r = [rm[m] for m in res] if not exc else 0
        elif op == "get_tag_keys":
            r = [rtk[k] + 1 for k in res] if not exc else 0
        elif op == "get_field_keys":
            r = [rfk[k] + 1 for k in res] if not exc else 0
        elif op == "get_timestamps":
            r = [rt[norm_t(t)] for t in res] if not exc else 0
        elif op == "get_field_values":
            r = [-1 if v is None else rfv[float(v)] for v in res] if not exc else 0
        else:
            return None
        if exc:
            r = 0
        out.append({"a": a, "exc": exc, "res": r, "store": after, "valid": e["valid"], "ix": e["ix"], "suite": 1})
    return out_trace(tr, out, init_abs)


def out_trace(tr, events, init_abs):
    if not events:
        return None
    out = {"id": "%s#%d" % (tr.test, tr.n), "kind": "suite", "auto_index": tr.auto_index,
           "init": init_abs, "valid0": tr.valid0, "events": events}
    mode = getattr(tr.db._storage, "_mode", None)
    if mode in ("r", "a", "w+", "r+"):
        out["mode"] = mode
    return out


# ---- pytest hooks ----------------------------------------------------------------------------
def pytest_configure(config):
    _install()


def pytest_runtest_setup(item):
    _CURRENT_TEST["id"] = item.nodeid
    _CURRENT_TEST["n"] = 0


def pytest_sessionfinish(session, exitstatus):
    path = os.environ.get("VERIF_SUITE_TRACES")
    if not path:
        return
    final, broken = [], []
    for tr in _TRACES:
        if not tr.events:
            continue
        if [repr(p) for p in tr.events[0]["before"]] != [repr(p) for p in tr.init]:
            broken.append([tr.test, "contents changed before the first recorded call"])
            continue
        try:
            a = _abstract(tr)
        except Exception as e:
            broken.append([tr.test, "abstract: %s: %s" % (type(e).__name__, e)])
            continue
        if a is None:
            broken.append([tr.test, tr.broken or "not expressible"])
            continue
        if tr.broken:
            a["truncated"] = tr.broken
        final.append(a)
    with open(path, "w") as fh:
        json.dump({"traces": final, "broken": broken}, fh, default=str)
