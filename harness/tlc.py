"""Run TLC / SANY on the specifications in /verif/spec and parse what they print.

Only the standard library is used.  Every run gets a private scratch directory
(under $VERIF_SCRATCH or /dev/shm or the system temp dir) which is removed when
the run is over; nothing a registered check needs is kept there.
"""
import json
import os
import re
import shutil
import subprocess
import tempfile
import time

VERIF = os.path.dirname(os.path.dirname(os.path.abspath(__file__)))
SPEC = os.path.join(VERIF, "spec")
JAR = "/opt/veriftools/tla/tla2tools.jar"
CM = "/opt/veriftools/tla/CommunityModules-deps.jar"


class MachineryError(Exception):
    """TLC/SANY failed for a reason that is not a property violation (exit 2)."""


def scratch_root():
    for cand in (os.environ.get("VERIF_SCRATCH"), "/dev/shm", tempfile.gettempdir()):
        if cand and os.path.isdir(cand) and os.access(cand, os.W_OK):
            return cand
    return tempfile.gettempdir()


def mkscratch(prefix="verif-"):
    return tempfile.mkdtemp(prefix=prefix, dir=scratch_root())


def cfg_text(constants=None, init="Init", next_="Next", spec=None, invariants=(),
             properties=(), constraints=(), action_constraints=(), view=None,
             postcondition=None, deadlock=False, symmetry=None):
    out = []
    if spec:
        out.append("SPECIFICATION %s" % spec)
    else:
        out.append("INIT %s" % init)
        out.append("NEXT %s" % next_)
    if constants:
        out.append("CONSTANTS")
        for k, v in constants.items():
            out.append("  %s = %s" % (k, tla_value(v)))
    for i in invariants:
        out.append("INVARIANT %s" % i)
    for p in properties:
        out.append("PROPERTY %s" % p)
    for c in constraints:
        out.append("CONSTRAINT %s" % c)
    for c in action_constraints:
        out.append("ACTION_CONSTRAINT %s" % c)
    if view:
        out.append("VIEW %s" % view)
    if postcondition:
        out.append("POSTCONDITION %s" % postcondition)
    out.append("CHECK_DEADLOCK %s" % ("TRUE" if deadlock else "FALSE"))
    return "\n".join(out) + "\n"


def tla_value(v):
    """Python value -> TLA+ cfg literal."""
    if isinstance(v, bool):
        return "TRUE" if v else "FALSE"
    if isinstance(v, int):
        return str(v)
    if isinstance(v, str):
        return '"%s"' % v
    if isinstance(v, (set, frozenset)):
        return "{" + ", ".join(tla_value(x) for x in sorted(v, key=repr)) + "}"
    if isinstance(v, (list, tuple)):
        return "<<" + ", ".join(tla_value(x) for x in v) + ">>"
    if isinstance(v, Raw):
        return v.text
    raise TypeError("cannot render %r as a cfg constant" % (v,))


class Raw:
    def __init__(self, text):
        self.text = text


_STATS = re.compile(r"(\d+) states generated, (\d+) distinct states found")
_TAGGED = re.compile(r'^<<"([A-Z_]+)", "(.*)">>$')


def unescape_tla(s):
    """Undo TLC's string escaping inside a printed string literal."""
    return s.replace('\\"', '"').replace("\\\\", "\\")


class Result:
    def __init__(self):
        self.ok = False
        self.states = 0
        self.distinct = 0
        self.wall_s = 0.0
        self.stdout = ""
        self.violated = []       # names of violated invariants / properties
        self.tagged = {}         # tag -> [parsed json]
        self.errors = []
        self.cmd = ""
        self.coverage = {}

    def tail(self, n=60):
        keep = [l for l in self.stdout.splitlines()
                if not l.startswith(("Parsing file", "Semantic processing", "Linting of", '<<"'))]
        return "\n".join(keep[-n:])

    def lines(self, tag):
        return self.tagged.get(tag, [])


def run_tlc(module, cfg, env=None, workers=1, simulate=None, depth=None,
            timeout=3600, coverage=False, seed=None, extra=(), keep=None,
            deque=False, heap="8g", quiet_tags=True):
    """Run TLC on spec/<module>.tla with the given cfg text.

    Lines printed by the spec as  <<"TAG", "<json>">>  (PrintT of a pair whose
    second element is ToJson(...)) are collected in Result.tagged[TAG].
    """
    scratch = mkscratch("tlc-")
    try:
        cfg_path = os.path.join(scratch, module + ".cfg")
        with open(cfg_path, "w") as fh:
            fh.write(cfg)
        jopts = ["-XX:+UseParallelGC", "-Xmx" + heap, "-Xss256m"]
        if deque:
            jopts.append("-Dtlc2.tool.queue.IStateQueue=StateDeque")
        cmd = ["java"] + jopts + ["-cp", JAR + ":" + CM, "tlc2.TLC",
               "-config", cfg_path, "-metadir", os.path.join(scratch, "meta"),
               "-noGenerateSpecTE", "-workers", str(workers)]
        if simulate is not None:
            cmd += ["-simulate", simulate]
        if depth is not None:
            cmd += ["-depth", str(depth)]
        if seed is not None:
            cmd += ["-seed", str(seed)]
        if coverage:
            cmd += ["-coverage", "1"]
        cmd += list(extra)
        cmd += [module + ".tla"]
        e = dict(os.environ)
        e.pop("JAVA_TOOL_OPTIONS", None)
        if env:
            e.update({k: str(v) for k, v in env.items()})
        t0 = time.time()
        try:
            p = subprocess.run(cmd, cwd=SPEC, env=e, stdout=subprocess.PIPE,
                               stderr=subprocess.STDOUT, timeout=timeout, text=True)
            out, rc, timed_out = p.stdout, p.returncode, False
        except subprocess.TimeoutExpired as te:
            out = te.stdout if isinstance(te.stdout, str) else (te.stdout or b"").decode("utf-8", "replace")
            rc, timed_out = -9, True
            subprocess.run(["pkill", "-f", cfg_path], check=False)
        r = Result()
        r.cmd = "tlc " + " ".join(cmd[cmd.index("tlc2.TLC") + 1:])
        r.wall_s = time.time() - t0
        r.stdout = out
        r.timed_out = timed_out
        r.rc = rc
        for line in out.splitlines():
            m = _TAGGED.match(line)
            if m:
                try:
                    r.tagged.setdefault(m.group(1), []).append(json.loads(unescape_tla(m.group(2))))
                except ValueError:
                    r.errors.append("unparsable tagged line: " + line[:200])
                continue
            m = _STATS.search(line)
            if m:
                r.states, r.distinct = int(m.group(1)), int(m.group(2))
            m = re.match(r"The number of states generated: (\d+)", line)
            if m:
                r.states = r.distinct = int(m.group(1))
            m = re.match(r"Error: Invariant (\S+) is violated", line)
            if m:
                r.violated.append(m.group(1))
            m = re.match(r"Error: Action property (\S+) is violated", line)
            if m:
                r.violated.append(m.group(1))
            if "Temporal properties were violated" in line:
                r.violated.append("<temporal>")
            if line.startswith("Error:") and "is violated" not in line and "behavior up to" not in line:
                r.errors.append(line)
        if simulate is not None and timed_out:
            pass
        r.ok = (rc == 0 and not r.violated and not r.errors) or \
               (simulate is not None and timed_out and not r.violated and not r.errors)
        if keep:
            with open(keep, "w") as fh:
                fh.write(out)
        return r
    finally:
        shutil.rmtree(scratch, ignore_errors=True)


def require_clean(r, what):
    """Raise MachineryError unless TLC finished without *tool* errors."""
    if r.errors and not r.violated:
        raise MachineryError("%s: TLC reported errors: %s\n%s" % (what, r.errors[:3], r.stdout[-3000:]))
    if r.rc not in (0, 12, 13) and not r.violated and not getattr(r, "timed_out", False):
        raise MachineryError("%s: TLC exit code %s\n%s" % (what, r.rc, r.stdout[-3000:]))


def sany(module):
    cmd = ["java", "-cp", JAR + ":" + CM, "tla2sany.SANY", module + ".tla"]
    p = subprocess.run(cmd, cwd=SPEC, stdout=subprocess.PIPE, stderr=subprocess.STDOUT, text=True)
    ok = p.returncode == 0 and "Semantic errors" not in p.stdout and "*** Errors" not in p.stdout \
        and "Parse Error" not in p.stdout and "Fatal errors" not in p.stdout
    return ok, p.stdout
