"""Dispatcher: ./check <property> [--tier T] | ./check replay <path> | ./check setup"""
import importlib
import json
import os
import sys

HERE = os.path.dirname(os.path.abspath(__file__))
sys.path.insert(0, HERE)
sys.path.insert(0, os.path.join(os.path.dirname(HERE), "checks"))

import common  # noqa: E402
import tlc  # noqa: E402


def main(argv):
    if not argv:
        print(__doc__)
        return 2
    args = list(argv)
    if "--tier" in args:
        i = args.index("--tier")
        os.environ["VERIF_TIER"] = args[i + 1]
        del args[i:i + 2]
    cmd = args[0]
    try:
        if cmd == "setup":
            import setup_check
            return setup_check.main()
        if cmd == "replay":
            with open(args[1]) as fh:
                rep = json.load(fh)
            mod = importlib.import_module(rep["property"].lower())
            return mod.replay(rep)
        mod = importlib.import_module(cmd.lower())
        return mod.main()
    except tlc.MachineryError as e:
        sys.stderr.write("MACHINERY FAILURE: %s\n" % e)
        return 2


if __name__ == "__main__":
    sys.exit(main(sys.argv[1:]))
