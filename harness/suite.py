"""Traces of the repository's own test suite (recorded by the pytest plug-in pytest_trace)."""
import json
import os
import shutil
import subprocess

import common
import tlc

ALLOW = os.path.join(common.VERIF, "suite_allowlist.json")


def record():
    """Run the tests of the tree under test with the recording plug-in; returns (traces, broken, pytest tail)."""
    scratch = tlc.mkscratch("suite-")
    try:
        out = os.path.join(scratch, "suite.json")
        env = dict(os.environ, VERIF_SUITE_TRACES=out, PYTHONPATH=os.path.join(common.VERIF, "harness"), PYTHONHASHSEED="0",
                   PYTHONDONTWRITEBYTECODE="1")
        p = subprocess.run([common.PY, "-m", "pytest", "-q", "-x", "-p", "no:cacheprovider", "-p", "pytest_trace", "tests"],
                           cwd=common.REPO, env=env, stdout=subprocess.PIPE, stderr=subprocess.STDOUT, text=True, timeout=900)
        if not os.path.exists(out):
            return [], [], p.stdout[-500:]
        d = json.load(open(out))
        return d["traces"], d["broken"], p.stdout[-300:]
    finally:
        shutil.rmtree(scratch, ignore_errors=True)


def allowlist():
    if not os.path.exists(ALLOW):
        return {}
    return json.load(open(ALLOW))
